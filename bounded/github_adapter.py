"""Bounded stand-in (NOT a proof) for two GitHub adapter functions whose results are INPUTS of the contracts:
  * PullRequest.get_approvals / get_change_requests (review summary): per reviewer the LAST review that is not a
    plain comment decides - APPROVED counts as an approval, CHANGES_REQUESTED as a change request, DISMISSED cancels
    whatever that reviewer said before (the function's own docstring);
  * Repository.get_pull_requests(src_branch=...): every query is restricted to `head=<owner>:<branch>` (GitHub
    ignores a head filter without the `user:` qualifier and then returns every pull request).
Scope: every sequence of up to 3 reviews by 2 reviewers over the 4 review states (listed in any id order); 3
branch-name shapes with and without an explicit author."""
import itertools
import time
from unittest import mock


def run(tier='quick', seed=0, jobs=1):
    from bert_e.git_host import github as GH
    t0 = time.time()
    fails, cases = [], 0
    states = ('APPROVED', 'CHANGES_REQUESTED', 'DISMISSED', 'COMMENTED')
    for n in range(0, 4):
        for combo in itertools.product(itertools.product(('ann', 'Bob'), states), repeat=n):
            for order in set(itertools.permutations(range(n))) if n <= 2 else [tuple(range(n)), tuple(reversed(range(n)))]:
                cases += 1
                revs = []
                for rid, (who, st) in enumerate(combo, 1):
                    r = GH.Review.__new__(GH.Review)
                    r.data = {'id': rid, 'user': {'login': who}, 'state': st}
                    revs.append(r)
                listed = [revs[i] for i in order]
                pr = GH.PullRequest.__new__(GH.PullRequest)
                pr._reviews = listed
                pr.get_reviews = lambda listed=listed: listed
                last = {}
                for who, st in combo:                     # timeline order = id order
                    if st != 'COMMENTED':
                        last[who.lower()] = st
                want_a = {w for w, st in last.items() if st == 'APPROVED'}
                want_c = {w for w, st in last.items() if st == 'CHANGES_REQUESTED'}
                try:
                    got_a, got_c = set(pr.get_approvals()), set(pr.get_change_requests())
                except Exception as e:  # noqa
                    got_a, got_c = {'<crash %s>' % type(e).__name__}, set()
                if (got_a, got_c) != (want_a, want_c) and len(fails) < 10:
                    fails.append({'clause': 'review_summary', 'signature': 'review_summary',
                                  'case': {'reviews': [list(c) for c in combo], 'listed_order': list(order)},
                                  'detail': {'approvals': [sorted(got_a), sorted(want_a)],
                                             'change_requests': [sorted(got_c), sorted(want_c)]}})
    for branches, author in itertools.product((['w/5.1/feature/x'], ['w/5.1/feature/x', 'w/10.0/feature/x'], 'feature/x'),
                                              (None, 'someone')):
        cases += 1
        seen = []

        def fake_list(client, params=None, **kw):
            seen.append(dict(params or {}))
            return []
        repo = GH.Repository.__new__(GH.Repository)
        repo.client = object()
        repo.data = {'owner': {'login': 'scality'}, 'name': 'bert-e', 'full_name': 'scality/bert-e'}
        with mock.patch.object(GH.PullRequest, 'list', staticmethod(fake_list)):
            try:
                list(repo.get_pull_requests(author=author, src_branch=branches))
            except Exception as e:  # noqa
                seen.append({'crash': repr(e)})
        names = [branches] if isinstance(branches, str) else branches
        want = ['%s:%s' % (author or 'scality', b) for b in names]
        if [p.get('head') for p in seen] != want and len(fails) < 12:
            fails.append({'clause': 'pull_request_lookup', 'signature': 'pull_request_lookup_head_filter',
                          'case': {'src_branch': branches, 'author': author}, 'detail': {'queries': seen, 'expected_heads': want}})
    sigs = {}
    for f in fails:
        sigs[f['signature']] = sigs.get(f['signature'], 0) + 1
    return {'name': 'bounded/github_adapter.py', 'scope': __doc__.split('Scope:')[1].strip(), 'cases': cases,
            'distinct_nontrivial': cases, 'n_failures': len(fails), 'failure_signatures': sigs, 'failures': fails[:6],
            'wall_s': round(time.time() - t0, 2)}


def integrate(rep, clauses):
    from pyvc.cli import write_replay
    res = run()
    rep.bounded.append({k: res.get(k) for k in ('name', 'scope', 'cases', 'distinct_nontrivial', 'n_failures',
                                                'failure_signatures', 'wall_s')})
    seen = set()
    for f in res['failures']:
        if f['clause'] not in clauses:
            continue
        k = 'bounded:github_adapter:%s' % f['signature']
        if k in seen:
            continue
        seen.add(k)
        rep.violations.append({'key': k, 'what': 'GitHub adapter: %s' % f['signature'], 'replay': write_replay(rep.pid, k, f),
                               'input': f['case'], 'noinput': False})


if __name__ == '__main__':
    import json
    print(json.dumps(run(), indent=1, default=str)[:1800])
