#!/verif/.venv/bin/python
"""Exhaustive native check of property C14 (who may create which job over
HTTP) on the REAL Flask application of bert-e, driven through the Flask test
client.

The routes are enumerated from the real ``app.url_map``.  The expectations
are written from the property statement (see ``RULE``), not from the code:

  * which endpoints are repository changing is hard coded below from the
    statement (create / delete a branch, force-merge / delete the queues);
  * the grammar of the parameters (branch names, branch_from, pr ids) is a
    hand written scanner, it does not use ``re`` nor the patterns of the code.

Usage:  /verif/.venv/bin/python bounded/c14_http.py [quick|thorough] [seed]
"""
import sys
sys.path.insert(0, '/repo')

import atexit
import base64
import copy
import json
import logging
import multiprocessing as mp
import os
import re
import shutil
import tempfile
import time
import warnings
from collections import Counter, deque
from queue import Queue
from types import SimpleNamespace
from unittest import mock
from urllib.parse import quote, urlsplit

warnings.filterwarnings('ignore')
logging.disable(logging.CRITICAL)

import flask                                              # noqa: E402
import requests                                           # noqa: E402
from requests.exceptions import HTTPError                 # noqa: E402

from bert_e import bert_e as berte_mod                    # noqa: E402
from bert_e import server as berte_server                 # noqa: E402
from bert_e.git_host import cache as berte_cache          # noqa: E402
from bert_e.git_host import mock as mock_api              # noqa: E402
from bert_e.lib.settings_dict import SettingsDict         # noqa: E402

NAME = 'c14_http'
RULE = ('C14: repository changing endpoints (create/delete branch, force-merge'
        '/delete queues) create a job only for an authenticated admin '
        'session; other API endpoints only for an authenticated session; '
        'webhooks only with the configured basic-auth credentials and only '
        'for the configured repository; a refused request gets an error '
        'status and enqueues nothing; a created job carries exactly the '
        'validated parameters of the request.')

HOOK_LOGIN = 'hook-login'
HOOK_PWD = 'hook-pwd'
OWNER = 'test_owner'
SLUG = 'test_repo'
METHODS = ('GET', 'POST', 'PUT', 'PATCH', 'DELETE')

# --------------------------------------------------------------------------
# Hard coded from the property statement
# --------------------------------------------------------------------------
ADMIN_API = {                       # (rule, method) -> expected job class
    ('/api/gwf/branches/<path:branch>', 'POST'): 'CreateBranchJob',
    ('/api/gwf/branches/<path:branch>', 'DELETE'): 'DeleteBranchJob',
    ('/api/gwf/queues', 'PATCH'): 'ForceMergeQueuesJob',
    ('/api/gwf/queues', 'DELETE'): 'DeleteQueuesJob',
}
USER_API = {
    ('/api/gwf/queues', 'POST'): 'RebuildQueuesJob',
    ('/api/pull-requests/<int:pr_id>', 'POST'): 'EvalPullRequestJob',
}
ADMIN_FORMS = {
    '/form/CreateBranchForm': 'CreateBranchJob',
    '/form/DeleteBranchForm': 'DeleteBranchJob',
    '/form/ForceMergeQueuesForm': 'ForceMergeQueuesJob',
    '/form/DeleteQueuesForm': 'DeleteQueuesJob',
}
USER_FORMS = {
    '/form/RebuildQueuesForm': 'RebuildQueuesJob',
    '/form/EvalPullRequestForm': 'EvalPullRequestJob',
}
# the login endpoint itself cannot require a session; it never makes a job
LOGIN_RULES = {'/api/auth'}
# JSON body parameters that the API documents (docs/API_DOC.md): only
# branch_from for the creation of a branch; every other endpoint: none.
VALIDATED_BODY_KEYS = {
    ('/api/gwf/branches/<path:branch>', 'POST'): ('branch_from',),
}

SESSIONS = {
    'none': {},
    'user': {'user': 'test_user', 'admin': False},
    'admin': {'user': 'test_admin', 'admin': True},
    # extra state: admin flag without any user: not authenticated
    'adminflag_nouser': {'admin': True},
}

# --------------------------------------------------------------------------
# Parameter oracle (hand written, ASCII only)
# --------------------------------------------------------------------------
_ASCII_DIGITS = '0123456789'
_HEX = '0123456789abcdefABCDEF'


def _is_number(text):
    return len(text) > 0 and all(ch in _ASCII_DIGITS for ch in text)


def _is_version(text, ncomp):
    parts = text.split('.')
    return len(parts) == ncomp and all(_is_number(p) for p in parts)


def branch_wellformed(name):
    """development/x.y | stabilization/x.y.z | hotfix/x.y.z, whole string."""
    if not isinstance(name, str):
        return False
    for prefix, ncomp in (('development/', 2), ('stabilization/', 3),
                          ('hotfix/', 3)):
        if name.startswith(prefix):
            return _is_version(name[len(prefix):], ncomp)
    return False


def branch_from_wellformed(value):
    """a sha (hex digits) or development/x.y; '' (blank form field, i.e.
    'not specified') and null are unspecified -> None."""
    if value is None or value == '':
        return None
    if not isinstance(value, str):
        return False
    if all(ch in _HEX for ch in value):
        return True
    if value.startswith('development/'):
        return _is_version(value[len('development/'):], 2)
    return False


def pr_id_wellformed(text):
    """ASCII decimal >= 1.  Exotic spellings of a positive number (unicode
    digits, leading zeros, '+1') are unspecified -> None."""
    text = str(text)
    if _is_number(text):
        if int(text) < 1:
            return False
        return True if text[0] != '0' else None
    try:
        val = int(text)
    except ValueError:
        return False
    return None if val >= 1 else False


BRANCHES = [
    ('dev_ok', 'development/4.3'),
    ('dev_ok_multidigit', 'development/10.12'),
    ('stab_ok', 'stabilization/4.3.1'),
    ('hotfix_ok', 'hotfix/4.3.1'),
    ('dev_1part', 'development/4'),
    ('dev_3part', 'development/4.3.1'),
    ('stab_2part', 'stabilization/4.3'),
    ('stab_4part', 'stabilization/4.3.1.2'),
    ('hotfix_2part', 'hotfix/4.3'),
    ('hotfix_4part', 'hotfix/4.3.1.2'),
    ('feature', 'feature/x'),
    ('trailing_space', 'development/4.3 '),
    ('leading_space', ' development/4.3'),
    ('extra_path', 'development/4.3/x'),
    ('trailing_slash', 'development/4.3/'),
    ('empty', ''),
    ('prefix_only', 'development/'),
    ('newline_end', 'development/4.3\n'),
    ('newline_mid', 'development/4.3\nx'),
    ('unicode_digits.arabic', 'development/٤.٣'),
    ('unicode_digits.fullwidth', 'stabilization/４.３.１'),
    ('unicode_digits.last', 'hotfix/4.3.١'),
    ('uppercase', 'Development/4.3'),
    ('no_dot', 'development/43'),
    ('alpha_version', 'development/4.x'),
    ('double_dot', 'development/4..3'),
    ('negative', 'development/-4.3'),
    ('prefixed', 'xdevelopment/4.3'),
    ('integration', 'w/4.3/feature/x'),
    ('queue', 'q/4.3'),
]
BRANCH_FROMS = [
    ('sha_short', '12345abcdef'),
    ('sha_full', '0123456789abcdef0123456789abcdef01234567'),
    ('sha_upper', 'ABCDEF12'),
    ('dev', 'development/4.2'),
    ('blank', ''),
    ('null', None),
    ('zzz', 'zzz'),
    ('dev_1part', 'development/4'),
    ('dev_3part', 'development/4.2.1'),
    ('stab', 'stabilization/4.2.1'),
    ('newline_end.sha', 'abc123\n'),
    ('newline_end.dev', 'development/4.2\n'),
    ('unicode_digits.dev', 'development/٤.٢'),
    ('sha_space', 'abc 123'),
    ('not_a_string.int', 123),
    ('not_a_string.list', ['abc123']),
]
PR_IDS = [
    ('one', '1'), ('twelve', '12'), ('zero', '0'), ('minus_one', '-1'),
    ('alpha', 'abc'), ('float', '1.5'), ('empty', ''),
    ('unicode_digits', '١٢'), ('leading_zero', '012'),
    ('plus', '+1'), ('huge', '99999999999999999999'),
]
JOB_IDS = [('nosuch', 'no-such-job'), ('existing_done', '@existing_job')]


def _wf_branch_variants():
    return [(lab, val, branch_wellformed(val)) for lab, val in BRANCHES]


# --------------------------------------------------------------------------
# Offline application (mirrors bert_e/tests/test_server.py::MockBertE)
# --------------------------------------------------------------------------
class _StubGithubClient:
    """Answers the two HTTP GETs that the github webhook handlers perform
    (pull request of an issue comment, workflow runs of a check suite)."""
    login = 'stub'

    def __init__(self):
        self.calls = []
        self.pulls = {}          # url -> pull request dict
        self.runs = {}           # head_sha -> workflow runs dict

    def get(self, url, params=None, headers=None, **kwargs):
        self.calls.append(url)
        if url in self.pulls:
            return copy.deepcopy(self.pulls[url])
        if url.endswith('/actions/runs'):
            sha = (params or {}).get('head_sha')
            if sha in self.runs:
                return copy.deepcopy(self.runs[sha])
        raise HTTPError('stub: no such url %s' % url)


class OfflineBertE(berte_mod.BertE):
    def __init__(self, host):
        if host == 'github':
            self.client = _StubGithubClient()
        else:
            self.client = mock_api.Client('login', 'password', 'email')
        self.project_repo = SimpleNamespace(
            owner=OWNER, slug=SLUG, full_name='%s/%s' % (OWNER, SLUG))
        self.settings = SettingsDict({
            'repository_host': host,
            'repository_owner': OWNER,
            'repository_slug': SLUG,
            'build_key': 'pre-merge',
            'pull_request_base_url':
                'https://example.org/foo/bar/pull-requests/{pr_id}',
            'commit_base_url':
                'https://example.org/foo/bar/commits/{commit_id}',
            'admins': ['test_admin', 'test_admin_2'],
            'organization': '',
            'pr_author_options': {},
            'use_queue': True,
        })
        self.git_repo = SimpleNamespace()
        self.task_queue = Queue()
        self.tasks_done = deque(maxlen=1000)
        self.status = {}


_SESSION_ROOT = {'path': None, 'pid': None}


def _session_root():
    """Private directory (tmpfs when available) that holds the server side
    session files of every app built by this process and its workers."""
    if _SESSION_ROOT['path'] is None:
        shm = '/dev/shm' if os.path.isdir('/dev/shm') else None
        _SESSION_ROOT['path'] = tempfile.mkdtemp(prefix='c14-sessions-',
                                                 dir=shm)
        _SESSION_ROOT['pid'] = os.getpid()
    return _SESSION_ROOT['path']


def _cleanup(others_only=False):
    root = _SESSION_ROOT['path']
    if root is None or _SESSION_ROOT['pid'] != os.getpid():
        return                      # only the creating process removes
    if others_only:
        mine = 'p%d-' % os.getpid()
        for name in os.listdir(root):
            if not name.startswith(mine):
                shutil.rmtree(os.path.join(root, name), ignore_errors=True)
        return
    shutil.rmtree(root, ignore_errors=True)
    _SESSION_ROOT['path'] = None


atexit.register(_cleanup)


def _memoise_version_lookup():
    """``inject_global_vars`` of the real app calls pkg_resources'
    get_distribution('bert_e') for every rendered page (a ~20 ms scan of
    sys.path).  Memoise the real function (value or exception): only the
    version string shown in the page footer depends on it."""
    real = berte_server.get_distribution
    if getattr(real, '_c14_memo', False):
        return
    memo = {}

    def get_distribution(name):
        if name not in memo:
            try:
                memo[name] = (True, real(name))
            except Exception as err:
                memo[name] = (False, err)
        ok, val = memo[name]
        if ok:
            return val
        raise val
    get_distribution._c14_memo = True
    berte_server.get_distribution = get_distribution



class Ctx:
    """One real Flask app per configured git host + per-session clients."""

    def __init__(self):
        os.environ['WEBHOOK_LOGIN'] = HOOK_LOGIN
        os.environ['WEBHOOK_PWD'] = HOOK_PWD
        os.environ['BERT_E_CLIENT_ID'] = 'dummy_client_id'
        os.environ['BERT_E_CLIENT_SECRET'] = 'dummy_client_secret'
        _memoise_version_lookup()
        self.hosts = {}
        self.private_sessions = True
        for host in ('bitbucket', 'github'):
            berte = OfflineBertE(host)
            app = berte_server.setup_server(berte)
            self._privatise_session_dir(app)
            from bert_e.job import CommitJob
            done = CommitJob(bert_e=berte, commit='d' * 40)
            done.complete()
            berte.tasks_done.appendleft(done)
            self.hosts[host] = SimpleNamespace(
                berte=berte, app=app, clients={}, untouched={}, csrf=None,
                done_job_id=str(done.id))
        self.form_calls = []

    def _privatise_session_dir(self, app):
        # The real app stores its server side sessions in the shared
        # directory /tmp/bert-e-sessions; point the very same cache class to
        # a private temporary directory (removed at exit).
        try:
            from cachelib.file import FileSystemCache
            itf = app.session_interface
            if isinstance(getattr(itf, 'cache', None), FileSystemCache):
                tmp = tempfile.mkdtemp(prefix='p%d-' % os.getpid(),
                                       dir=_session_root())
                itf.cache = FileSystemCache(tmp, threshold=500, mode=0o600)
                return
        except Exception:
            pass
        self.private_sessions = False

    # -- sessions ----------------------------------------------------------
    def csrf_pair(self, host):
        """(raw session value, signed token) obtained through the real
        management page."""
        hst = self.hosts[host]
        if hst.csrf is None:
            client = hst.app.test_client()
            with client.session_transaction() as sess:
                sess.update(SESSIONS['admin'])
            page = client.get('/manage').data.decode()
            found = re.search(
                r'name="csrf_token"[^>]*value="([^"]*)"', page)
            with client.session_transaction() as sess:
                raw = sess.get('csrf_token')
            hst.csrf = (raw, found.group(1) if found else None)
        return hst.csrf

    def client(self, host, session):
        """A test client whose server side session is reset to the wanted
        state (user / admin flags + the csrf secret of the session)."""
        hst = self.hosts[host]
        raw, _ = self.csrf_pair(host)
        client = hst.clients.get(session)
        if client is None:
            client = hst.clients[session] = hst.app.test_client()
        elif hst.untouched.get(session):
            # the previous request of this client was answered by the
            # router (404/405): no view ran, the session is as we left it
            return client
        with client.session_transaction() as sess:
            sess.clear()
            sess.update(SESSIONS[session])
            if raw is not None:
                sess['csrf_token'] = raw
        return client

    # -- queue -------------------------------------------------------------
    def drain(self, host):
        berte = self.hosts[host].berte
        jobs = list(berte.task_queue.queue)
        berte.task_queue.queue.clear()
        berte.task_queue.unfinished_tasks = 0
        return jobs

    def reset(self, host):
        self.drain(host)
        berte_cache.BUILD_STATUS_CACHE.clear()
        client = self.hosts[host].berte.client
        if isinstance(client, _StubGithubClient):
            client.calls.clear()
            client.pulls.clear()
            client.runs.clear()
        del self.form_calls[:]


_CTX = None


def ctx():
    global _CTX
    if _CTX is None:
        _CTX = Ctx()
    return _CTX


def _routed_request(method, url, json=None, headers=None, **kwargs):
    """Stand-in for ``requests.request`` used by the management forms: the
    call is routed into the same Flask app with the caller's headers (hence
    the caller's session cookie), as a real loop-back HTTP call would."""
    app = flask.current_app._get_current_object()
    parts = urlsplit(url)
    path = parts.path + ('?' + parts.query if parts.query else '')
    hdrs = {k: v for k, v in dict(headers or {}).items()
            if k.lower() not in ('content-length', 'content-type', 'host')}
    inner = app.test_client(use_cookies=False)
    resp = inner.open(path, method=method, json=json, headers=hdrs)
    ctx().form_calls.append({'method': method, 'url': url, 'json': json,
                             'status': resp.status_code})
    return SimpleNamespace(status_code=resp.status_code,
                           text=resp.get_data(as_text=True))


# --------------------------------------------------------------------------
# Introspection of the registered views
# --------------------------------------------------------------------------
def _requires_auth_admin(view_func):
    """Value of the ``admin`` free variable of the ``requires_auth`` closure
    that wraps ``view_func`` (None when not wrapped)."""
    func, seen = view_func, set()
    while func is not None and id(func) not in seen:
        seen.add(id(func))
        code = getattr(func, '__code__', None)
        if (code is not None and func.__closure__ and
                code.co_name == 'decorated' and
                'admin' in code.co_freevars and
                code.co_filename.endswith('auth.py')):
            idx = code.co_freevars.index('admin')
            return func.__closure__[idx].cell_contents
        func = getattr(func, '__wrapped__', None)
    return None


def registered_views(host='bitbucket'):
    hst = ctx().hosts[host]
    if getattr(hst, 'views', None) is not None:
        return hst.views
    app = hst.app
    out = []
    for rule in app.url_map.iter_rules():
        if not (rule.rule.startswith('/api') or rule.rule.startswith('/form')):
            continue
        func = app.view_functions[rule.endpoint]
        cls = getattr(func, 'view_class', None)
        job = None
        if cls is not None:
            job = getattr(cls, 'job', None)
            if job is None and getattr(cls, 'endpoint_cls', None) is not None:
                job = cls.endpoint_cls.job
        out.append({
            'rule': rule.rule,
            'methods': sorted(m for m in rule.methods
                              if m not in ('HEAD', 'OPTIONS')),
            'endpoint': rule.endpoint,
            'view_class': cls.__name__ if cls is not None else None,
            'admin_flag_of_class': getattr(cls, 'admin', None),
            'decorated_admin': _requires_auth_admin(func),
            'job_class': job.__name__ if job is not None else None,
        })
    hst.views = out
    return out


def _form_fields(host, rule):
    """Declared (non csrf) fields of the wtforms class of a /form rule."""
    from wtforms.fields.core import UnboundField
    app = ctx().hosts[host].app
    for rul in app.url_map.iter_rules():
        if rul.rule == rule:
            cls = getattr(app.view_functions[rul.endpoint], 'view_class', None)
            form_cls = getattr(cls, 'form_cls', None)
            if form_cls is None:
                return []
            names = [n for n in dir(form_cls)
                     if isinstance(getattr(form_cls, n, None), UnboundField)]
            return sorted(n for n in names if n != 'csrf_token')
    return []


def _view_job_class(host, rule, method):
    for view in registered_views(host):
        if view['rule'] == rule and method in view['methods']:
            return view['job_class']
    return None


# --------------------------------------------------------------------------
# Case enumeration
# --------------------------------------------------------------------------
_PLACEHOLDER = re.compile(r'<(?:(\w+):)?(\w+)>')


def _rule_args(rule):
    return [(m.group(2), m.group(1) or 'string')
            for m in _PLACEHOLDER.finditer(rule)]


def _arg_variants(name, conv):
    if conv == 'path' or name == 'branch':
        return [(lab, val, branch_wellformed(val)) for lab, val in BRANCHES]
    if conv == 'int' or name == 'pr_id':
        return [(lab, val, pr_id_wellformed(val)) for lab, val in PR_IDS]
    return [(lab, val, None) for lab, val in JOB_IDS]


def _body_variants(rule):
    out = [
        ('nobody', None),
        ('empty_obj', {}),
        ('extra_key', {'unvalidated_key': 'x'}),
        ('extra_setting', {'admins': ['test_user'], 'use_queue': False}),
        ('json_list', [1]),
        ('json_string', 'abc'),
    ]
    if 'branch' in rule:
        out += [('bf_' + lab, {'branch_from': val})
                for lab, val in BRANCH_FROMS]
        out.append(('collide_branch', {'branch': 'feature/evil'}))
    if 'pr_id' in rule:
        out.append(('collide_pr_id', {'pr_id': -5}))
    return out


def _product(lists):
    if not lists:
        yield []
        return
    for head in lists[0]:
        for tail in _product(lists[1:]):
            yield [head] + tail


def enumerate_cases():
    cases = []
    views = registered_views('bitbucket')
    api_rules, form_rules = [], []
    for view in views:
        target = api_rules if view['rule'].startswith('/api') else form_rules
        if view['rule'] not in target:
            target.append(view['rule'])
    # ---- API ------------------------------------------------------------
    for rule in api_rules:
        args = _rule_args(rule)
        variants = [[(name, conv) + v for v in _arg_variants(name, conv)]
                    for name, conv in args]
        for combo in _product(variants):
            for blabel, body in _body_variants(rule):
                for method in METHODS:
                    for session in SESSIONS:
                        for ctype in ('json', 'form'):
                            cases.append({
                                'kind': 'api', 'host': 'bitbucket',
                                'rule': rule, 'method': method,
                                'session': session, 'ctype': ctype,
                                'args': {n: {'label': lab, 'value': val}
                                         for n, _c, lab, val, _w in combo},
                                'body': {'label': blabel, 'value': body},
                            })
    # ---- management forms -------------------------------------------------
    for rule in form_rules:
        fields = _form_fields('bitbucket', rule)
        per_field = []
        for name in fields:
            if name == 'branch':
                vals = [(name, lab, val) for lab, val in BRANCHES]
            elif name == 'branch_from':
                vals = [(name, lab, val) for lab, val in BRANCH_FROMS
                        if isinstance(val, str)]
            elif name == 'pr_id':
                vals = [(name, lab, val) for lab, val in PR_IDS]
            else:
                vals = [(name, 'unknown_field', 'x')]
            vals.append((name, 'absent', None))
            per_field.append(vals)
        for combo in _product(per_field):
            for extra in (False, True):
                for method in METHODS:
                    for session in SESSIONS:
                        for csrf in ('valid', 'missing', 'wrong'):
                            if extra and csrf != 'valid':
                                continue
                            cases.append({
                                'kind': 'form', 'host': 'bitbucket',
                                'rule': rule, 'method': method,
                                'session': session, 'csrf': csrf,
                                'fields': {n: {'label': lab, 'value': val}
                                           for n, lab, val in combo},
                                'extra_field': extra,
                            })
    # ---- webhooks -----------------------------------------------------------
    for host in ('bitbucket', 'github'):
        for route in ('/bitbucket', '/github'):
            for elabel in _webhook_events(route):
                for cred in CREDENTIALS:
                    for ident in IDENTITIES:
                        cases.append({
                            'kind': 'webhook', 'host': host, 'route': route,
                            'method': 'POST', 'cred': cred, 'identity': ident,
                            'event': elabel,
                        })
            first = sorted(_webhook_events(route))[0]
            for method in METHODS:
                if method == 'POST':
                    continue
                for cred in ('right', 'none'):
                    cases.append({
                        'kind': 'webhook', 'host': host, 'route': route,
                        'method': method, 'cred': cred, 'identity': 'match',
                        'event': _first_handled(route) or first,
                    })
    return cases


# --------------------------------------------------------------------------
# Webhook payloads
# --------------------------------------------------------------------------
CREDENTIALS = {
    'none': None,
    'wrong_user': ('intruder', HOOK_PWD),
    'wrong_password': (HOOK_LOGIN, 'guess'),
    'swapped': (HOOK_PWD, HOOK_LOGIN),
    'empty': ('', ''),
    'right': (HOOK_LOGIN, HOOK_PWD),
    # same concatenation, boundary moved
    'shifted_boundary': (HOOK_LOGIN[:-1], HOOK_LOGIN[-1:] + HOOK_PWD),
    'all_in_password': ('', HOOK_LOGIN + HOOK_PWD),
    'all_in_login': (HOOK_LOGIN + HOOK_PWD, ''),
    'bearer': 'Bearer ' + HOOK_PWD,
    'garbage_basic': 'Basic !!!notbase64!!!',
}
IDENTITIES = ('match', 'other_owner', 'other_slug', 'both_other', 'missing')
SHAS = ('1f0e3dad99908345f7439f8ffabdffc4f1a2b3c4',
        'aaaabbbbccccddddeeeeffff0000111122223333')
PRIDS = (1, 12)


def _identity(ident):
    owner = 'evil_owner' if ident in ('other_owner', 'both_other') else OWNER
    slug = 'evil_repo' if ident in ('other_slug', 'both_other') else SLUG
    return owner, slug


def _bb_repository(ident):
    if ident == 'missing':
        return None
    owner, slug = _identity(ident)
    return {'name': slug, 'full_name': '%s/%s' % (owner, slug),
            'owner': {'username': owner, 'type': 'user',
                      'display_name': owner},
            'scm': 'git', 'type': 'repository', 'is_private': True}


def _gh_repository(ident):
    if ident == 'missing':
        return None
    owner, slug = _identity(ident)
    return {'name': slug, 'full_name': '%s/%s' % (owner, slug),
            'owner': {'id': 7, 'login': owner}, 'private': True}


def _bb_pullrequest(prid):
    return {'id': prid, 'title': 'a pull request', 'type': 'pullrequest',
            'state': 'OPEN', 'description': 'text',
            'author': {'username': 'john_doe', 'display_name': 'John'},
            'source': {'branch': {'name': 'feature/x'},
                       'commit': {'hash': 'abcdef012345'}},
            'destination': {
                'branch': {'name': 'development/4.3'},
                'commit': {'hash': '68fe68c5d83a'},
                'repository': {'full_name': '%s/%s' % (OWNER, SLUG)}},
            'participants': [], 'reviewers': [],
            'links': {'self': {'href': 'https://api.bitbucket.org/2.0/x'}}}


def _bb_status(sha, state):
    return {'key': 'pre-merge', 'state': state, 'name': 'build',
            'description': 'desc', 'type': 'build',
            'url': 'https://ci.example.org/builds/1',
            'links': {'commit': {'href': 'https://api.bitbucket.org/2.0/'
                                 'repositories/%s/%s/commit/%s'
                                 % (OWNER, SLUG, sha)}}}


def _gh_pull(prid):
    url = 'https://api.github.com/repos/%s/%s/pulls/%d' % (OWNER, SLUG, prid)
    return {'number': prid, 'url': url,
            'html_url': 'https://github.com/%s/%s/pull/%d'
                        % (OWNER, SLUG, prid),
            'state': 'open', 'title': 'a pull request', 'body': 'text',
            'user': {'id': 2, 'login': 'alice'},
            'head': {'ref': 'feature/x', 'sha': 'a' * 40},
            'base': {'ref': 'development/4.3', 'sha': 'b' * 40},
            'merged_at': None}


def _gh_runs(sha, status, conclusion):
    return {'total_count': 1, 'workflow_runs': [{
        'id': 11, 'head_sha': sha, 'head_branch': 'feature/x',
        'status': status, 'conclusion': conclusion, 'check_suite_id': 5,
        'html_url': 'https://github.com/x/actions/runs/11', 'event': 'push',
        'workflow_id': 3,
        'repository': {'name': SLUG, 'full_name': '%s/%s' % (OWNER, SLUG),
                       'owner': {'id': 7, 'login': OWNER}}}]}


_EVENTS_CACHE = {}


def _webhook_events(route):
    if route not in _EVENTS_CACHE:
        _EVENTS_CACHE[route] = _build_webhook_events(route)
    return _EVENTS_CACHE[route]


def _build_webhook_events(route):
    """label -> dict(header, payload builder info, expectation).

    expect: ('pr', id) / ('commit', sha): a handled event, a job of that kind
            is the only job that may be created;
            'unhandled': an event type bert-e does not react to;
            'ignored': a handled type whose details make it uninteresting
            (build started, pull request closed, comment on a plain issue):
            the statement does not say whether a job is made: if one is made
            it must be the right one (given as 'maybe').
            'malformed': no usable event type at all."""
    evs = {}
    if route == '/bitbucket':
        for name in ('created', 'updated', 'approved', 'unapproved',
                     'fulfilled', 'rejected', 'comment_created',
                     'comment_updated', 'comment_deleted'):
            for prid in PRIDS:
                evs['pullrequest:%s#%d' % (name, prid)] = {
                    'header': 'pullrequest:' + name, 'prid': prid,
                    'expect': ('pr', prid)}
        for name in ('commit_status_created', 'commit_status_updated'):
            for sha in SHAS:
                for state in ('SUCCESSFUL', 'FAILED', 'STOPPED'):
                    evs['repo:%s#%s#%s' % (name, state, sha[:6])] = {
                        'header': 'repo:' + name, 'sha': sha, 'state': state,
                        'expect': ('commit', sha)}
                evs['repo:%s#INPROGRESS#%s' % (name, sha[:6])] = {
                    'header': 'repo:' + name, 'sha': sha,
                    'state': 'INPROGRESS', 'expect': 'ignored',
                    'maybe': ('commit', sha)}
        for key in ('repo:push', 'repo:fork', 'repo:updated',
                    'repo:commit_comment_created', 'issue:created',
                    'issue:comment_created', 'project:updated'):
            evs[key] = {'header': key, 'expect': 'unhandled'}
        evs['<no event header>'] = {'header': None, 'expect': 'malformed'}
        evs['<event key without colon>'] = {'header': 'pullrequest',
                                            'expect': 'malformed'}
    else:
        for action in ('opened', 'reopened', 'synchronize', 'edited',
                       'labeled'):
            for prid in PRIDS:
                evs['pull_request:%s#%d' % (action, prid)] = {
                    'header': 'pull_request', 'action': action, 'prid': prid,
                    'expect': ('pr', prid)}
        evs['pull_request:closed#1'] = {
            'header': 'pull_request', 'action': 'closed', 'prid': 1,
            'expect': 'ignored', 'maybe': ('pr', 1)}
        for action in ('created', 'edited', 'deleted'):
            for prid in PRIDS:
                evs['issue_comment:%s#%d' % (action, prid)] = {
                    'header': 'issue_comment', 'action': action, 'prid': prid,
                    'expect': ('pr', prid)}
        evs['issue_comment:created#plain_issue'] = {
            'header': 'issue_comment', 'action': 'created', 'prid': 1,
            'plain_issue': True, 'expect': 'ignored'}
        for action in ('submitted', 'edited', 'dismissed'):
            for prid in PRIDS:
                evs['pull_request_review:%s#%d' % (action, prid)] = {
                    'header': 'pull_request_review', 'action': action,
                    'prid': prid, 'expect': ('pr', prid)}
        for sha in SHAS:
            for state in ('success', 'failure', 'error'):
                evs['status:%s#%s' % (state, sha[:6])] = {
                    'header': 'status', 'state': state, 'sha': sha,
                    'expect': ('commit', sha)}
            evs['status:pending#%s' % sha[:6]] = {
                'header': 'status', 'state': 'pending', 'sha': sha,
                'expect': 'ignored', 'maybe': ('commit', sha)}
            for concl in ('success', 'failure'):
                evs['check_suite:completed:%s#%s' % (concl, sha[:6])] = {
                    'header': 'check_suite', 'action': 'completed',
                    'sha': sha, 'runs': ('completed', concl),
                    'expect': ('commit', sha)}
            evs['check_suite:requested#%s' % sha[:6]] = {
                'header': 'check_suite', 'action': 'requested', 'sha': sha,
                'runs': ('in_progress', None),
                'expect': 'ignored', 'maybe': ('commit', sha)}
        for key in ('push', 'ping', 'issues', 'fork', 'create', 'delete',
                    'release', 'check_run', 'workflow_run',
                    'pull_request_review_comment'):
            evs[key] = {'header': key, 'expect': 'unhandled'}
        evs['<no event header>'] = {'header': None, 'expect': 'malformed'}
    return evs


def _first_handled(route):
    for label, spec in sorted(_webhook_events(route).items()):
        if isinstance(spec['expect'], tuple):
            return label
    return None


def _webhook_request(case):
    """-> (headers, payload dict, stub setup callable(client))."""
    route = case['route']
    spec = _webhook_events(route)[case['event']]
    headers = {}
    setup = None
    if route == '/bitbucket':
        if spec['header'] is not None:
            headers['X-Event-Key'] = spec['header']
        payload = {'actor': {'username': 'john_doe'}}
        repo = _bb_repository(case['identity'])
        if repo is not None:
            payload['repository'] = repo
        if 'prid' in spec:
            payload['pullrequest'] = _bb_pullrequest(spec['prid'])
            if 'comment' in (spec['header'] or ''):
                payload['comment'] = {'id': 3, 'content': {'raw': 'hi'}}
        if 'sha' in spec:
            payload['commit_status'] = _bb_status(spec['sha'], spec['state'])
        if spec['expect'] == 'malformed':
            payload['pullrequest'] = _bb_pullrequest(1)
    else:
        if spec['header'] is not None:
            headers['X-Github-Event'] = spec['header']
        payload = {'sender': {'id': 2, 'login': 'alice'}}
        repo = _gh_repository(case['identity'])
        if repo is not None:
            payload['repository'] = repo
        hdr = spec['header']
        if hdr in ('pull_request', 'pull_request_review'):
            payload.update({'action': spec['action'],
                            'number': spec['prid'],
                            'pull_request': _gh_pull(spec['prid'])})
            if hdr == 'pull_request_review':
                payload['review'] = {'id': 9, 'state': 'approved',
                                     'user': {'id': 2, 'login': 'alice'}}
        elif hdr == 'issue_comment':
            pull = _gh_pull(spec['prid'])
            issue = {'number': spec['prid'], 'title': 'a pull request'}
            if not spec.get('plain_issue'):
                issue['pull_request'] = {'url': pull['url']}

                def setup(client, pull=pull):
                    client.pulls[pull['url']] = pull
            payload.update({'action': spec['action'], 'issue': issue,
                            'comment': {'id': 3, 'body': 'hi'}})
        elif hdr == 'status':
            payload.update({'sha': spec['sha'], 'state': spec['state'],
                            'context': 'pre-merge', 'description': None,
                            'target_url': None})
        elif hdr == 'check_suite':
            status, concl = spec['runs']
            payload.update({
                'action': spec['action'],
                'check_suite': {'id': 5, 'head_sha': spec['sha'],
                                'head_branch': 'feature/x',
                                'status': status, 'conclusion': concl}})
            runs = _gh_runs(spec['sha'], status, concl)

            def setup(client, sha=spec['sha'], runs=runs):
                client.runs[sha] = runs
        elif spec['expect'] == 'malformed':
            payload.update({'action': 'opened', 'number': 1,
                            'pull_request': _gh_pull(1)})
    cred = CREDENTIALS[case['cred']]
    if isinstance(cred, tuple):
        headers['Authorization'] = 'Basic ' + base64.b64encode(
            ('%s:%s' % cred).encode()).decode()
    elif isinstance(cred, str):
        headers['Authorization'] = cred
    return headers, payload, setup


# --------------------------------------------------------------------------
# Execution
# --------------------------------------------------------------------------
def _describe_job(job):
    desc = {'class': type(job).__name__, 'user': getattr(job, 'user', None)}
    if hasattr(job, 'kwargs'):
        desc['kwargs'] = _jsonable(job.kwargs)
    try:
        desc['settings'] = _jsonable(job.settings.maps[0])
    except Exception as err:                       # pragma: no cover
        desc['settings'] = 'unreadable: %r' % err
    if hasattr(job, 'pull_request'):
        try:
            desc['pr_id'] = job.pull_request.id
        except Exception as err:
            desc['pr_id'] = 'unreadable: %r' % err
        desc['pr_class'] = '%s.%s' % (type(job.pull_request).__module__,
                                      type(job.pull_request).__name__)
    if hasattr(job, 'commit'):
        desc['commit'] = job.commit
    return desc


def _jsonable(obj):
    try:
        json.dumps(obj)
        return obj
    except (TypeError, ValueError):
        if isinstance(obj, dict):
            return {str(k): _jsonable(v) for k, v in obj.items()}
        if isinstance(obj, (list, tuple, set)):
            return [_jsonable(v) for v in obj]
        return repr(obj)


def _api_url(case, hst):
    rule = case['rule']

    def sub(match):
        val = case['args'][match.group(2)]['value']
        if val == '@existing_job':
            val = hst.done_job_id
        return quote(str(val), safe='/')
    return _PLACEHOLDER.sub(sub, rule)


def execute(case):
    """Send the request of ``case`` to the real app -> observation dict."""
    cx = ctx()
    host = case['host']
    hst = cx.hosts[host]
    cx.reset(host)
    obs = {}
    if case['kind'] == 'api':
        client = cx.client(host, case['session'])
        url = _api_url(case, hst)
        body = case['body']['value']
        kwargs = {}
        if case['ctype'] == 'json':
            headers = {'Content-Type': 'application/json',
                       'Accept': 'application/json'}
            if body is not None or case['body']['label'] != 'nobody':
                kwargs['data'] = json.dumps(body)
        else:
            headers = {'Accept': 'text/html'}
            kwargs['content_type'] = 'application/x-www-form-urlencoded'
            if isinstance(body, dict):
                kwargs['data'] = {k: (v if isinstance(v, str) else
                                      json.dumps(v))
                                  for k, v in body.items()}
            elif body is not None:
                kwargs['data'] = {'payload': json.dumps(body)}
        resp = client.open(url, method=case['method'], headers=headers,
                           **kwargs)
        obs['url'] = url
    elif case['kind'] == 'form':
        client = cx.client(host, case['session'])
        data = {n: f['value'] for n, f in case['fields'].items()
                if f['value'] is not None}
        if case.get('extra_field'):
            data['unvalidated_key'] = 'x'
        if case['csrf'] == 'valid':
            data['csrf_token'] = cx.csrf_pair(host)[1] or ''
        elif case['csrf'] == 'wrong':
            data['csrf_token'] = 'IjEyMzQi.wrong.token'
        with mock.patch.object(requests, 'request', _routed_request):
            resp = client.open(case['rule'], method=case['method'],
                               data=data)
        obs['inner_calls'] = list(cx.form_calls)
    else:
        headers, payload, setup = _webhook_request(case)
        if setup is not None and isinstance(hst.berte.client,
                                            _StubGithubClient):
            setup(hst.berte.client)
        client = hst.app.test_client()
        resp = client.open(case['route'], method=case['method'],
                           data=json.dumps(payload), headers=headers)
        if isinstance(hst.berte.client, _StubGithubClient):
            obs['stub_client_calls'] = list(hst.berte.client.calls)
    if case['kind'] != 'webhook':
        hst.untouched[case['session']] = (
            resp.status_code == 405 and 'Allow' in resp.headers)
    jobs = cx.drain(host)
    obs.update({
        'status': resp.status_code,
        'location': resp.headers.get('Location'),
        'n_jobs': len(jobs),
        'jobs': [_describe_job(j) for j in jobs],
        'project_repo_ok': all(
            getattr(j, 'project_repo', hst.berte.project_repo)
            is hst.berte.project_repo for j in jobs),
    })
    return obs


# --------------------------------------------------------------------------
# Judgement (from the statement)
# --------------------------------------------------------------------------
def _wf_all(flags):
    """False if any ill-formed, None if any unspecified, else True."""
    if any(f is False for f in flags):
        return False
    if any(f is None for f in flags):
        return None
    return True


def _got(obs):
    out = {'status': obs['status'], 'n_jobs': obs['n_jobs']}
    if obs['location']:
        out['location'] = obs['location']
    if obs['jobs']:
        out['jobs'] = obs['jobs']
    if obs.get('inner_calls'):
        out['inner_calls'] = obs['inner_calls']
    return out


def _refused(case, obs):
    if obs['status'] >= 400:
        return True
    if case['kind'] == 'form' and 300 <= obs['status'] < 400:
        return '/manage' in (obs['location'] or '')
    return False


class Verdicts:
    def __init__(self, case, obs):
        self.case, self.obs = case, obs
        self.items = []          # (clause, ok, signature, expected)
        self.observations = []   # soft remarks (not failures)

    def add(self, clause, ok, expected, sig=''):
        self.items.append((clause, bool(ok), sig, expected))

    def observe(self, text):
        self.observations.append(text)


def _sig(case, clause, detail, obs):
    with_session = clause in ('auth_required', 'admin_required')
    if case['kind'] == 'api':
        what = '%s %s ctype=%s' % (
            case['method'], case['rule'], case['ctype'])
    elif case['kind'] == 'form':
        what = '%s %s csrf=%s' % (
            case['method'], case['rule'], case['csrf'])
    if case['kind'] != 'webhook' and with_session:
        what += ' session=%s' % case['session']
    if case['kind'] == 'webhook':
        what = '%s %s host=%s cred=%s identity=%s' % (
            case['method'], case['route'], case['host'],
            'right' if case['cred'] == 'right' else 'bad/none',
            case['identity'])
    return '%s | %s | %s | got status=%s jobs=%d' % (
        clause, what, detail, obs['status'], obs['n_jobs'])


def _classify_params(case):
    """-> (flags, notes) where notes = [(name, label, flag)]; flag is True
    (well-formed), False (ill-formed per the statement) or None (the
    statement does not say)."""
    notes = []
    if case['kind'] == 'api':
        validated_keys = VALIDATED_BODY_KEYS.get(
            (case['rule'], case['method']), ())
        for name, arg in sorted(case['args'].items()):
            if name == 'branch':
                flag = branch_wellformed(arg['value'])
            elif name == 'pr_id':
                flag = pr_id_wellformed(arg['value'])
            else:
                flag = None
            notes.append((name, arg['label'], flag))
        body = case['body']['value']
        if isinstance(body, dict):
            extra = False
            for key, val in body.items():
                if key == 'branch_from' and key in validated_keys:
                    notes.append(('body.branch_from',
                                  case['body']['label'].replace('bf_', ''),
                                  branch_from_wellformed(val)))
                else:
                    extra = True
            if extra:
                notes.append(('body', 'unvalidated_keys', None))
        elif body is not None:
            notes.append(('body', case['body']['label'], None))
    else:
        for name, fld in sorted(case['fields'].items()):
            val = fld['value']
            if name == 'branch':
                flag = False if val is None else branch_wellformed(val)
            elif name == 'pr_id':
                flag = False if val is None else pr_id_wellformed(val)
            elif name == 'branch_from':
                flag = branch_from_wellformed(val)
            else:
                flag = None
            notes.append((name, fld['label'], flag))
        if case.get('extra_field'):
            notes.append(('form', 'undeclared_extra_field', None))
    return [n[2] for n in notes], notes


def _label_class(label):
    return label.split('.')[0]


def judge(case, obs):
    if case['kind'] == 'webhook':
        return _judge_webhook(case, obs)
    v = Verdicts(case, obs)
    kind = case['kind']
    rule, method, session = case['rule'], case['method'], case['session']
    njobs = obs['n_jobs']
    status = obs['status']
    views = registered_views(case['host'])
    registered = any(w['rule'] == rule and method in w['methods']
                     for w in views)
    if kind == 'api':
        admin_ep = (rule, method) in ADMIN_API
        exp_job = ADMIN_API.get((rule, method)) or USER_API.get((rule, method))
        validated_keys = VALIDATED_BODY_KEYS.get((rule, method), ())
        body = case['body']['value']
    else:
        admin_ep = rule in ADMIN_FORMS
        exp_job = ADMIN_FORMS.get(rule) or USER_FORMS.get(rule)
        validated_keys, body = (), None
    flags, pnotes = _classify_params(case)
    wellformed = _wf_all(flags)
    # structural details used in signatures
    d_ill = ' '.join('%s=%s' % (n, _label_class(lab))
                     for n, lab, f in pnotes if f is False) or '-'
    d_nonok = ' '.join('%s=%s' % (n, _label_class(lab))
                       for n, lab, f in pnotes if f is not True) or '-'
    d_full = ' '.join('%s=%s' % (n, lab) for n, lab, f in pnotes)
    authenticated = bool(SESSIONS[session].get('user'))
    is_admin = authenticated and bool(SESSIONS[session].get('admin'))
    authorised = is_admin if admin_ep else authenticated
    routing_ok = (404, 405)

    # ---- clause: refused -> nothing enqueued (always evaluated) ----------
    if _refused(case, obs):
        v.add('refused_enqueues_nothing', njobs == 0,
              'a refused request enqueues nothing',
              _sig(case, 'refused_enqueues_nothing', d_nonok, obs))

    if not registered:
        v.add('method_not_registered',
              status in routing_ok and njobs == 0,
              'status 404/405 and nothing enqueued',
              _sig(case, 'method_not_registered', d_nonok, obs))
        return v

    if kind == 'api' and rule in LOGIN_RULES:
        v.add('login_endpoint_no_job', njobs == 0,
              'the login endpoint never creates a job',
              _sig(case, 'login_endpoint_no_job', d_nonok, obs))
        if not authenticated and status != 401:
            v.observe('login endpoint %s answers %d (not 401) without '
                      'session / token' % (rule, status))
        return v

    if not authenticated:
        accept = (401,) if wellformed else (401, 400, 404)
        v.add('auth_required', status in accept and njobs == 0,
              'status 401 and nothing enqueued',
              _sig(case, 'auth_required', d_nonok, obs))
    elif admin_ep and not is_admin:
        accept = (403,) if wellformed else (403, 400, 404)
        v.add('admin_required', status in accept and njobs == 0,
              'status 403 and nothing enqueued',
              _sig(case, 'admin_required', d_nonok, obs))
    elif wellformed is False:
        refused = _refused(case, obs)
        v.add('invalid_params_refused', refused and njobs == 0,
              'refused (400, or 404 from routing; redirect to the '
              'management page for a form) and nothing enqueued',
              _sig(case, 'invalid_params_refused', 'ill-formed: ' + d_ill,
                   obs))
        if status >= 500:
            v.observe('ill-formed parameters answered with %d: %s %s %s'
                      % (status, method, rule, d_full))

    # ---- clause: what an enqueued job must look like ----------------------
    if njobs:
        problems = []          # (code, message)
        if njobs != 1:
            problems.append(('several_jobs', '%d jobs enqueued' % njobs))
        if not authorised:
            problems.append(('caller_not_authorised',
                             'caller not authorised (session=%s)' % session))
        job = obs['jobs'][0]
        if exp_job is None:
            problems.append(('job_from_non_job_endpoint',
                             'no job expected from this endpoint'))
        elif job['class'] != exp_job:
            problems.append(('job_class', 'job class %s != %s'
                             % (job['class'], exp_job)))
        view_job = _view_job_class(case['host'], rule, method)
        if view_job is not None and job['class'] != view_job:
            problems.append(('job_class_vs_view',
                             'job class %s != view job class %s'
                             % (job['class'], view_job)))
        if job['user'] != SESSIONS[session].get('user'):
            problems.append(('job_user', 'job.user %r != session user %r'
                             % (job['user'], SESSIONS[session].get('user'))))
        if not obs['project_repo_ok']:
            problems.append(('job_repo',
                             'job not bound to the configured repository'))
        settings = job.get('settings')
        kwargs = job.get('kwargs')
        unvalidated = []
        if kind == 'api':
            url_params = {}
            for name, arg in case['args'].items():
                url_params[name] = arg['value']
                if name == 'pr_id':
                    try:
                        url_params[name] = int(arg['value'])
                    except ValueError:
                        pass
            exp_settings = dict(body) if isinstance(body, dict) else {}
            exp_settings.update(url_params)
            if kwargs != url_params:
                problems.append(('kwargs_differ',
                                 'job.kwargs %r != url parameters %r'
                                 % (kwargs, url_params)))
            if settings != exp_settings:
                problems.append(('settings_differ',
                                 'job settings %r != request parameters %r'
                                 % (settings, exp_settings)))
            if isinstance(settings, dict):
                val = settings.get('pr_id')
                if 'pr_id' in url_params and (not isinstance(val, int) or
                                              isinstance(val, bool)):
                    problems.append(('pr_id_type', 'pr_id %r not an int'
                                     % (val,)))
                allowed = set(url_params) | set(validated_keys)
                unvalidated = sorted(k for k in settings if k not in allowed)
        else:
            sent = {n: f['value'] for n, f in case['fields'].items()
                    if f['value'] is not None}
            exp_settings = dict(sent)
            if 'pr_id' in exp_settings:
                try:
                    exp_settings['pr_id'] = int(exp_settings['pr_id'])
                except ValueError:
                    pass
            if not isinstance(settings, dict):
                problems.append(('settings_differ',
                                 'job settings is not a dict: %r'
                                 % (settings,)))
            else:
                for name, val in exp_settings.items():
                    if settings.get(name) != val:
                        problems.append(('settings_differ',
                                         'job %s %r != submitted %r'
                                         % (name, settings.get(name), val)))
                unvalidated = sorted(k for k in settings
                                     if k not in case['fields'])
        codes = ','.join(sorted(set(c for c, _m in problems)))
        v.add('job_carries_validated_params', not problems,
              {'one job': exp_job, 'authorised': True,
               'settings': exp_settings,
               'user': SESSIONS[session].get('user'),
               'problems': [m for _c, m in problems]},
              _sig(case, 'job_carries_validated_params',
                   '%s :: %s' % (d_nonok, codes), obs))
        if unvalidated:
            v.add('job_carries_only_validated_params', False,
                  {'text': 'no parameter outside the validated ones (url '
                           'parameters + documented body keys) reaches the '
                           'job settings',
                   'validated_body_keys': list(validated_keys),
                   'unvalidated_keys_in_job_settings': unvalidated},
                  _sig(case, 'job_carries_only_validated_params',
                       'unvalidated request keys copied into job.settings '
                       '(first ChainMap layer, overrides bert-e settings)',
                       obs))
        elif not problems:
            v.add('job_carries_only_validated_params', True,
                  'no unvalidated parameter reaches the job')
    elif (authorised and wellformed and not _refused(case, obs)
          and exp_job is not None and
          (kind == 'form' and case['csrf'] == 'valid' or
           kind == 'api' and case['ctype'] == 'json')):
        v.observe('authorised well-formed request neither refused nor '
                  'enqueued: %s %s %s' % (method, rule, d_full))
    if kind == 'form' and njobs and case['csrf'] != 'valid':
        v.observe('form accepted with csrf=%s' % case['csrf'])
    if (authorised and wellformed and exp_job is not None and njobs == 0 and
            (kind == 'api' and case['ctype'] == 'json' and
             case['body']['label'] in ('empty_obj',) or
             kind == 'form' and case['csrf'] == 'valid' and
             not any(f['value'] is None for f in case['fields'].values()))):
        v.observe('LIVENESS: valid authorised request refused: %s %s %s -> %d'
                  % (method, rule, d_full, status))
    return v


def _judge_webhook(case, obs):
    v = Verdicts(case, obs)
    spec = _webhook_events(case['route'])[case['event']]
    njobs, status = obs['n_jobs'], obs['status']
    detail = 'event=%s' % re.sub(r'#.*', '', case['event'])
    refused = status >= 400
    if refused:
        v.add('refused_enqueues_nothing', njobs == 0,
              'a refused request enqueues nothing',
              _sig(case, 'refused_enqueues_nothing', detail, obs))
    if case['method'] != 'POST':
        v.add('method_not_registered', status in (404, 405) and njobs == 0,
              'status 404/405 and nothing enqueued',
              _sig(case, 'method_not_registered', detail, obs))
        return v
    route_host = case['route'].strip('/')
    if case['cred'] != 'right':
        v.add('webhook_auth', status == 401 and njobs == 0,
              'status 401 and nothing enqueued',
              _sig(case, 'webhook_auth', detail, obs))
        return v
    if case['identity'] != 'match':
        v.add('webhook_repo', refused and njobs == 0,
              'error status and nothing enqueued',
              _sig(case, 'webhook_repo', detail, obs))
        return v
    if route_host != case['host']:
        # webhook of the other git host than the configured one: the
        # statement is silent; only record what happens.
        v.add('webhook_cross_host', True, 'unspecified')
        if njobs:
            v.observe('webhook %s accepted by a bert-e configured for %s: '
                      'job %s' % (case['route'], case['host'],
                                  obs['jobs'][0]['class']))
        return v
    expect = spec['expect']

    def right_job(want):
        job = obs['jobs'][0]
        if njobs != 1 or not obs['project_repo_ok']:
            return False
        if want[0] == 'pr':
            return (job['class'] == 'PullRequestJob' and
                    job.get('pr_id') == want[1])
        return job['class'] == 'CommitJob' and job.get('commit') == want[1]

    if isinstance(expect, tuple):
        ok = njobs == 1 and status < 400 and right_job(expect)
        v.add('webhook_job', ok,
              {'status': '2xx', 'one job': list(expect)},
              _sig(case, 'webhook_job', detail, obs))
    elif expect == 'unhandled':
        v.add('webhook_unhandled', status == 200 and njobs == 0,
              'status 200 and nothing enqueued',
              _sig(case, 'webhook_unhandled', detail, obs))
    elif expect == 'malformed':
        v.add('webhook_unhandled', njobs == 0, 'nothing enqueued',
              _sig(case, 'webhook_unhandled', detail, obs))
        if status != 200:
            v.observe('webhook without usable event type answered %d (%s %s)'
                      % (status, case['route'], case['event']))
    else:   # ignored detail of a handled type
        ok = njobs == 0 or ('maybe' in spec and right_job(spec['maybe']))
        v.add('webhook_ignored_detail', ok and status < 400,
              'no job, or the right job; no error',
              _sig(case, 'webhook_ignored_detail', detail, obs))
    return v


# --------------------------------------------------------------------------
# Driver
# --------------------------------------------------------------------------
def _run_chunk(cases):
    out = []
    for idx, case in cases:
        try:
            obs = execute(case)
            verdicts = judge(case, obs)
            out.append((idx, _got(obs),
                        verdicts.items, verdicts.observations))
        except Exception as err:                       # harness error
            out.append((idx, {'harness_error': repr(err)},
                        [('harness_error', False,
                          'harness_error | %s %s | %s' % (
                              case.get('method'),
                              case.get('rule', case.get('route')),
                              type(err).__name__), 'no exception')], []))
    return out


def _worker_init():
    global _CTX
    _CTX = None                 # fresh apps (and session dirs) per process


def _chunk_worker(args):
    return _run_chunk(args)


def run(tier: str = 'quick', seed: int = 0, jobs: int = 16) -> dict:
    t0 = time.time()
    cases = enumerate_cases()
    indexed = list(enumerate(cases))
    nproc = max(1, min(jobs, os.cpu_count() or 1, 12))
    results = []
    if nproc == 1:
        results = _run_chunk(indexed)
    else:
        chunks = [indexed[i::nproc * 4] for i in range(nproc * 4)]
        chunks = [c for c in chunks if c]
        _session_root()
        with mp.get_context('fork').Pool(nproc, _worker_init) as pool:
            for part in pool.imap_unordered(_chunk_worker, chunks):
                results.extend(part)
        _cleanup(others_only=True)
    results.sort(key=lambda r: r[0])

    clause_counts = Counter()
    fail_sigs = Counter()
    failures = []
    seen_sig_examples = set()
    n_failures = 0
    nontrivial = 0
    observations = Counter()
    observation_examples = {}
    accepted = Counter()
    samples = {}
    status_hist = Counter()
    for idx, got, items, obsv in results:
        case = cases[idx]
        if items or got.get('n_jobs'):
            nontrivial += 1
        if got.get('n_jobs'):
            accepted[case['kind']] += 1
        status_hist['%s:%s' % (case['kind'], got.get('status'))] += 1
        for text in obsv:
            key = re.sub(r'(:| -> ).*', '', text) if text.startswith(
                ('ill-formed', 'LIVENESS', 'authorised')) else text
            observations[key] += 1
            observation_examples.setdefault(key, text)
        case_failed = False
        for clause, ok, sig, expected in items:
            clause_counts[clause] += 1
            if ok:
                continue
            case_failed = True
            n_failures += 1
            fail_sigs[sig] += 1
            if sig not in seen_sig_examples and len(failures) < 50:
                seen_sig_examples.add(sig)
                failures.append({'case': case, 'clause': clause,
                                 'signature': sig, 'expected': expected,
                                 'got': got})
        if not case_failed and items:
            for clause, ok, sig, expected in items:
                if clause not in samples and got.get('status') is not None:
                    samples[clause] = {'case': case, 'clause': clause,
                                       'expected': expected, 'got': got}
    wanted = ('job_carries_validated_params', 'admin_required',
              'auth_required', 'webhook_job', 'webhook_repo')
    sample_list = [samples[c] for c in wanted if c in samples][:5]

    views = registered_views('bitbucket')
    notes = [
        'routes enumerated from the real app.url_map: %s' % json.dumps(
            [[w['rule'], w['methods'], w['view_class'],
              w['admin_flag_of_class'], w['decorated_admin'], w['job_class']]
             for w in views]),
        'two real apps are built (settings.repository_host bitbucket and '
        'github); API/form matrix runs on the bitbucket one, the webhook '
        'matrix on both apps x both routes',
        'github webhook handlers for issue_comment and check_suite perform '
        'an HTTP GET through bert_e.client: bert_e.client is a stub whose '
        '.get() returns the pull request / workflow runs dicts (no network)',
        'management forms: requests.request is replaced by a function that '
        'routes the call into the same Flask app with the forwarded headers '
        '(session cookie) - a loop-back call; the csrf token is read from '
        'the real /manage page',
        'server side session files go to a private temp dir (same cachelib '
        'FileSystemCache class)' if ctx().private_sessions else
        'server side session files go to /tmp/bert-e-sessions (real config)',
        'pkg_resources.get_distribution (version string of the page footer) '
        'is memoised for speed; nothing else of the server is altered',
        'refusal statuses 5xx are counted as refusals (the statement only '
        'asks for an error status); they are listed in observations',
        'jobs enqueued per kind: %s' % dict(accepted),
        'status histogram: %s' % dict(sorted(status_hist.items())),
    ]
    for key, cnt in sorted(observations.items()):
        notes.append('observation x%d: %s' % (cnt, observation_examples[key]))
    mismatch = _admin_flag_cross_check(views)
    notes.extend(mismatch)

    n_api = sum(1 for c in cases if c['kind'] == 'api')
    n_form = sum(1 for c in cases if c['kind'] == 'form')
    n_hook = sum(1 for c in cases if c['kind'] == 'webhook')
    scope = (
        'full matrix, real Flask app + test client. API (%d cases): every '
        '/api rule of app.url_map x methods %s x sessions %s x every url '
        'parameter variant (%d branch names, %d pr ids, %d job ids) x body '
        'variants (none, {}, unvalidated keys, non-object JSON, %d '
        'branch_from values and a colliding key for the branch rule) x '
        'content-type {json, form}. Forms (%d cases): every /form rule x '
        'methods x sessions x csrf {valid, missing, wrong} x every field '
        'variant (branch x branch_from product, pr ids, absent fields) + an '
        'undeclared extra field. Webhooks (%d cases): app host {bitbucket, '
        'github} x route {/bitbucket, /github} x %d credentials x %d '
        'repository identities x every event label (%d bitbucket, %d '
        'github: all handled types x ids/shas/states + unhandled + '
        'malformed) + non-POST methods.'
        % (n_api, list(METHODS), list(SESSIONS), len(BRANCHES), len(PR_IDS),
           len(JOB_IDS), len(BRANCH_FROMS), n_form, n_hook,
           len(CREDENTIALS), len(IDENTITIES),
           len(_webhook_events('/bitbucket')),
           len(_webhook_events('/github'))))
    return {
        'name': NAME, 'scope': scope, 'cases': len(cases),
        'distinct_nontrivial': nontrivial, 'rule': RULE, 'notes': notes,
        'n_failures': n_failures, 'failures': failures,
        'failure_signatures': dict(fail_sigs.most_common()),
        'clause_counts': dict(clause_counts), 'samples': sample_list,
        'exhaustive': True, 'tier': tier, 'seed': seed,
        'wall_s': round(time.time() - t0, 2),
    }


def _admin_flag_cross_check(views):
    """Structure check: the decorator's admin flag of every registered view
    against the statement's list of repository changing endpoints."""
    out = []
    for view in views:
        for method in view['methods']:
            if view['rule'].startswith('/api'):
                if view['rule'] in LOGIN_RULES:
                    continue
                want = (view['rule'], method) in ADMIN_API
            else:
                want = view['rule'] in ADMIN_FORMS
            if view['decorated_admin'] is None:
                out.append('STRUCTURE: %s %s is not wrapped by requires_auth'
                           % (method, view['rule']))
            elif bool(view['decorated_admin']) != want:
                out.append('STRUCTURE: %s %s registered with admin=%r, the '
                           'statement wants admin=%r'
                           % (method, view['rule'], view['decorated_admin'],
                              want))
    return out


def replay(case: dict) -> dict:
    """Re-run one case on freshly built apps."""
    global _CTX
    _CTX = None
    obs = execute(case)
    verdicts = judge(case, obs)
    bad = [it for it in verdicts.items if not it[1]]
    chosen = bad[0] if bad else (verdicts.items[-1] if verdicts.items
                                 else ('none', True, '', None))
    return {'ok': not bad, 'clause': chosen[0], 'expected': chosen[3],
            'got': _got(obs),
            'all_clauses': [[c, ok] for c, ok, _s, _e in verdicts.items],
            'observations': verdicts.observations}


if __name__ == '__main__':
    tier_ = sys.argv[1] if len(sys.argv) > 1 else 'quick'
    seed_ = int(sys.argv[2]) if len(sys.argv) > 2 else 0
    print(json.dumps(run(tier_, seed_), indent=1, default=str,
                     ensure_ascii=True))
