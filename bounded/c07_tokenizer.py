#!/verif/.venv/bin/python
"""Bounded exhaustive check of property C07 (comment tokenizer and option
authorisation) against the REAL ``Reactor.handle_options`` and the REAL
``bert_e.workflow.gitwaterflow.handle_comments``.

Part (a): an independent hand written character scanner (no ``re``) of the
documented option declaration forms is compared with what the real
``handle_options`` tokenizes, on every comment text of a bounded grammar.

Part (b): an independent oracle of the final outcome of ``handle_comments``
(exception class / keyword, truthy options) is compared with the real
function driven with a real ``PullRequestJob`` on stubbed collaborators, on
every comment list of length <= 2 of a bounded pool (+ seeded sample of
length 3), for every poster role.

Usage:  /verif/.venv/bin/python bounded/c07_tokenizer.py [quick|thorough] [seed]
"""
import sys
sys.path.insert(0, '/repo')

import itertools
import json
import logging
import multiprocessing as mp
import random
import time
import warnings
from types import SimpleNamespace

warnings.simplefilter('ignore')
logging.disable(logging.CRITICAL)

import jinja2                                                   # noqa: E402
from bert_e import exceptions as messages                        # noqa: E402
from bert_e.job import PullRequestJob                            # noqa: E402
from bert_e.lib import template_loader                           # noqa: E402
from bert_e.reactor import Reactor, Option                       # noqa: E402
from bert_e.workflow import gitwaterflow as gwf                  # noqa: E402
from bert_e.workflow.gitwaterflow import commands as gwf_commands  # noqa
from bert_e.workflow.gitwaterflow import handle_comments         # noqa: E402

NAME = 'c07_tokenizer'
ROBOT = 'robot'
PREFIX = '@' + ROBOT
ADMINS = ['admin', 'author_admin']
CLAUSES = ('tokenizer', 'privileged_needs_admin_not_author',
           'authored_needs_author', 'unknown_blocks', 'wrong_person_blocks',
           'not_addressed_no_effect', 'no_partial_application',
           'outcome_mismatch')
BLOCKING = ('UnknownCommand', 'NotEnoughCredentials', 'NotAuthor',
            'IncorrectCommandSyntax')

gwf.setup({})
OPTION_NAMES = tuple(sorted(Reactor.get_options()))
COMMAND_NAMES = tuple(sorted(Reactor.get_commands()))

# --------------------------------------------------------------------------
# Independent scanner (part a).  No re.
# --------------------------------------------------------------------------
WS = ' \t\n\r\x0b\x0c'
SEPS = ',.-:;|+'                      # with ' ' the separators of the statement
_ALNUM = ('abcdefghijklmnopqrstuvwxyz' 'ABCDEFGHIJKLMNOPQRSTUVWXYZ'
          '0123456789_')


def _is_tok(c):
    return c in _ALNUM or c == '='


def _strip(text):
    i, j = 0, len(text)
    while i < j and text[i] in WS:
        i += 1
    while j > i and text[j - 1] in WS:
        j -= 1
    return text[i:j]


def scan_options(text, prefix=PREFIX):
    """Return (tokens_or_None, ambiguity_list).

    tokens: list of 'keyword[=arg]' strings when the comment is an option
    declaration addressed to the robot, None otherwise.  When the documented
    forms do not decide, the ambiguity list is non empty and both None and the
    returned tokens are acceptable ('either')."""
    s = _strip(text)
    amb = []
    n_p = len(prefix)
    if s[:n_p] == prefix:
        rest = s[n_p:]
        if rest == '':
            return None, amb
        c0 = rest[0]
        if _is_tok(c0):
            return None, amb          # '@robotx ...': somebody else
        if c0 in SEPS and c0 != ':':
            amb.append('prefix_glued_to_separator')   # '@robot-x', '@robot.a'
        tokens = []
        i, n = 0, len(rest)
        while i < n:
            c = rest[i]
            if c in WS or c in SEPS:
                i += 1
            elif c == '/':
                if 'slash_in_mention_form' not in amb:
                    amb.append('slash_in_mention_form')
                i += 1
            elif _is_tok(c):
                j = i
                while j < n and _is_tok(rest[j]):
                    j += 1
                tokens.append(rest[i:j])
                i = j
            else:
                return None, []       # free text, not an option declaration
        if not tokens:
            return None, []
        return tokens, amb
    if s[:1] == '/':
        tokens = []
        i, n = 0, len(s)
        need_sep = False              # a separator is due before next token
        while i < n:
            c = s[i]
            if c == '/':
                j = i + 1
                while j < n and _is_tok(s[j]):
                    j += 1
                if j == i + 1:
                    if 'dangling_slash' not in amb:
                        amb.append('dangling_slash')
                    i += 1
                    continue
                if need_sep and 'slash_tokens_not_separated' not in amb:
                    amb.append('slash_tokens_not_separated')
                tokens.append(s[i + 1:j])
                need_sep = True
                i = j
            elif c in WS or c in SEPS:
                need_sep = False
                i += 1
            elif _is_tok(c):
                return None, []       # bare word: '/approve this please'
            else:
                return None, []
        if not tokens:
            return None, []
        last = s[-1]
        if last in SEPS:
            amb.append('slash_form_trailing_separator')
        return tokens, amb
    return None, amb


def scan_command_word(text, prefix=PREFIX):
    """First word of a comment addressed to the robot (command position), or
    None when the comment is not addressed / has no word."""
    s = _strip(text)
    n_p = len(prefix)
    if s[:n_p] == prefix:
        rest = s[n_p:]
        if rest and _is_tok(rest[0]):
            return None
        i = 0
        while i < len(rest) and (rest[i] in WS or rest[i] == ':'):
            i += 1
    elif s[:1] == '/' and len(s) > 1 and s[1] in _ALNUM:
        rest = s
        i = 1
    else:
        return None
    j = i
    while j < len(rest) and rest[j] not in WS and rest[j] not in SEPS \
            and rest[j] not in '=/':
        j += 1
    word = rest[i:j]
    return word or None


def is_addressed(text, prefix=PREFIX):
    """The weakest notion used by clause not_addressed_no_effect: after
    stripping, the text starts with the prefix or with '/'."""
    s = _strip(text)
    return s[:len(prefix)] == prefix or s[:1] == '/'


# --------------------------------------------------------------------------
# Real tokenizer observation
# --------------------------------------------------------------------------
class _RecReactor(Reactor):
    """The real handle_options with a dispatch that accepts (and records)
    every keyword as an unprivileged option."""
    def __init__(self):
        self.seen = []

    def dispatch(self, key, default=None):
        seen = self.seen

        def handler(job, *args):
            seen.append('='.join([key] + list(args)))
        return Option(handler, None, '', False, False)


def real_tokens(text, prefix=PREFIX):
    rec = _RecReactor()
    rec.handle_options(SimpleNamespace(settings={}), text, prefix)
    return rec.seen or None


def check_tokenizer(text):
    exp, amb = scan_options(text)
    got = real_tokens(text)
    if got == exp or (amb and got is None):
        return None
    return ('tokenizer', {'tokens': exp, 'either_none': bool(amb)},
            {'tokens': got})


# --------------------------------------------------------------------------
# Real handle_comments driver
# --------------------------------------------------------------------------
class _Executed(Exception):
    def __init__(self, name):
        super().__init__(name)
        self.name = name


def _fake_reset(job, force=False):
    raise _Executed('force_reset' if force else 'reset')


gwf_commands._reset = _fake_reset      # git-needing snippet stubbed out

_REAL_RENDER = messages.render
_ENV = jinja2.Environment(
    loader=jinja2.FileSystemLoader(str(template_loader.TEMPLATE_DIR)),
    undefined=jinja2.StrictUndefined)


def _cached_render(template, **kwargs):
    """Same as template_loader.render, with the Environment built once."""
    return _ENV.get_template(template).render(**kwargs)


def _bert_e(pr_author_options=None):
    return SimpleNamespace(
        settings={'robot': ROBOT, 'admins': list(ADMINS),
                  'pr_author_options': pr_author_options or {}},
        client=SimpleNamespace(login=ROBOT),
        project_repo=object(), git_repo=object())


_CURRENT_DEFAULTS = [()]


def _ensure_defaults(defaults):
    defaults = tuple(defaults)
    if _CURRENT_DEFAULTS[0] != defaults:
        gwf.setup({key: True for key in defaults})   # as bert_e.py does
        _CURRENT_DEFAULTS[0] = defaults


def real_outcome(pr_author, comments, defaults=(), fast=True):
    """Run the real handle_comments.  Returns dict(outcome, keyword,
    options)."""
    _ensure_defaults(defaults)
    messages.render = _cached_render if fast else _REAL_RENDER
    pr = SimpleNamespace(
        author=pr_author, id=1,
        comments=[SimpleNamespace(author=a, text=t) for a, t in comments])
    job = PullRequestJob(bert_e=_bert_e(), pull_request=pr)
    keyword = None
    try:
        handle_comments(job)
        outcome = 'ok'
    except messages.TemplateException as err:
        outcome = type(err).__name__
        keyword = err.kwargs.get('command')
    except _Executed as err:
        outcome = 'command_executed:' + err.name
    except Exception as err:
        outcome = 'CRASH:' + type(err).__name__
    finally:
        messages.render = _REAL_RENDER
    options = {}
    for key, val in job.settings.maps[0].items():
        if val:
            options[key] = sorted(val) if isinstance(val, set) else val
    return {'outcome': outcome, 'keyword': keyword, 'options': options}


# --------------------------------------------------------------------------
# Independent oracle of handle_comments (part b)
# --------------------------------------------------------------------------
def _is_privileged_option(key):
    return key.startswith('bypass_')          # statement: "any bypass_*"


def _is_authored_option(key):
    return key == 'approve'                   # statement: "(approve)"


COMMAND_RESULT = {'help': 'HelpMessage', 'status': 'StatusReport',
                  'build': 'CommandNotImplemented',
                  'retry': 'CommandNotImplemented',
                  'clear': 'CommandNotImplemented',
                  'reset': 'command_executed:reset',
                  'force_reset': 'command_executed:force_reset'}


def _split_token(tok):
    k = tok.find('=')
    if k < 0:
        return tok, []
    args = []
    key, rest = tok[:k], tok[k + 1:]
    while True:
        k = rest.find('=')
        if k < 0:
            args.append(rest)
            break
        args.append(rest[:k])
        rest = rest[k + 1:]
    return key, args


def _all_ascii_digits(s):
    return s != '' and all(c in '0123456789' for c in s)


def oracle_outcome(pr_author, comments, defaults=()):
    """What the statement prescribes.  Returns dict(outcome, keyword,
    options, blocking_comment, either)."""
    options = {key: True for key in defaults}
    either = []
    # ---- options: every comment, oldest first
    for idx, (who, text) in enumerate(comments):
        tokens, amb = scan_options(text)
        if tokens is None:
            continue
        if amb:
            either.extend(amb)
        privileged = who in ADMINS and who != pr_author
        authored = who == pr_author
        first_key = _split_token(tokens[0])[0]
        if first_key in COMMAND_NAMES:
            continue                  # a command call, handled below
        staged = []
        blocked = None
        for tok in tokens:
            key, args = _split_token(tok)
            if key not in OPTION_NAMES:
                blocked = ('UnknownCommand', key)
            elif _is_privileged_option(key) and not privileged:
                blocked = ('NotEnoughCredentials', key)
            elif _is_authored_option(key) and not authored:
                blocked = ('NotAuthor', key)
            elif len(args) > 1:
                blocked = ('IncorrectCommandSyntax', None)
            elif key == 'after_pull_request':
                if not args:
                    blocked = ('IncorrectCommandSyntax', None)
                elif _all_ascii_digits(args[0]):
                    staged.append((key, args[0]))
            else:
                if args and args[0] == '':
                    either.append('empty_argument')
                if args and key != 'after_pull_request':
                    either.append('flag_with_value')
                staged.append((key, args[0] if args else True))
            if blocked:
                break
        if blocked:
            # "blocks the pull request ... instead of being partly applied"
            return {'outcome': blocked[0], 'keyword': blocked[1],
                    'options': _truthy(options), 'blocking_comment': idx,
                    'either': either}
        for key, val in staged:
            if key == 'after_pull_request':
                options.setdefault(key, set())
                options[key].add(val)
            else:
                options[key] = val
    # ---- commands: comments posted after the robot's last message,
    #      newest first
    for idx in range(len(comments) - 1, -1, -1):
        who, text = comments[idx]
        if who == ROBOT:
            break
        word = scan_command_word(text)
        if word is None or word in OPTION_NAMES:
            continue
        if word not in COMMAND_NAMES:
            return {'outcome': 'UnknownCommand', 'keyword': word,
                    'options': _truthy(options), 'blocking_comment': None,
                    'either': either}
        return {'outcome': COMMAND_RESULT[word], 'keyword': None,
                'options': _truthy(options), 'blocking_comment': None,
                'either': either}
    return {'outcome': 'ok', 'keyword': None, 'options': _truthy(options),
            'blocking_comment': None, 'either': either}


def _truthy(options):
    out = {}
    for key, val in options.items():
        if val:
            out[key] = sorted(val) if isinstance(val, set) else val
    return out


# --------------------------------------------------------------------------
# Clause checks on one case
# --------------------------------------------------------------------------
def _declared(comments, pr_author):
    """Per comment: (tokens, is_declaration) by the independent scanner."""
    out = []
    for who, text in comments:
        tokens, amb = scan_options(text)
        keys = [_split_token(t)[0] for t in tokens] if tokens else []
        decl = bool(tokens) and keys[0] not in COMMAND_NAMES
        out.append((who, keys, decl, amb))
    return out


def check_case(pr_author, comments, defaults=(), fast=True):
    """Returns (failures, expected, got).  failures = list of
    (clause, detail, expected, got)."""
    comments = [tuple(c) for c in comments]
    got = real_outcome(pr_author, comments, defaults, fast)
    exp = oracle_outcome(pr_author, comments, defaults)
    fails = []
    decl = _declared(comments, pr_author)
    ambiguous = bool(exp['either'])

    # 1/2. authority needed for privileged / author-only options
    for key in got['options']:
        if key in defaults:
            continue
        if _is_privileged_option(key):
            ok = any(d and key in keys and who in ADMINS and who != pr_author
                     for who, keys, d, _ in decl)
            if not ok:
                fails.append(('privileged_needs_admin_not_author', key,
                              'no %s without an admin (not the author) '
                              'writing it' % key, got))
        if _is_authored_option(key):
            ok = any(d and key in keys and who == pr_author
                     for who, keys, d, _ in decl)
            if not ok:
                fails.append(('authored_needs_author', key,
                              'no %s without the author writing it' % key,
                              got))
    crashed = got['outcome'].startswith('CRASH:')
    if not ambiguous and not crashed:
        # 3. unknown keyword in an option declaration blocks
        unknown = [k for who, keys, d, _ in decl if d for k in keys
                   if k not in OPTION_NAMES]
        if unknown and got['outcome'] not in BLOCKING:
            fails.append(('unknown_blocks', 'unknown:%s' % _kw_class(
                unknown[0]), 'one of %s' % (BLOCKING,), got))
        # 4. privileged / author-only keyword from the wrong person blocks
        wrong = [k for who, keys, d, _ in decl if d for k in keys
                 if (_is_privileged_option(k) and k in OPTION_NAMES and
                     not (who in ADMINS and who != pr_author)) or
                 (_is_authored_option(k) and who != pr_author)]
        if wrong and got['outcome'] not in BLOCKING:
            fails.append(('wrong_person_blocks', _kw_class(wrong[0]),
                          'one of %s' % (BLOCKING,), got))
    # 5. text not addressed to the robot has no effect (metamorphic: drop
    #    the non-robot comments that are not addressed, same result; and a
    #    list without any addressed comment leaves the defaults untouched)
    unaddressed = [i for i, (who, text) in enumerate(comments)
                   if who != ROBOT and not is_addressed(text)]
    if unaddressed:
        kept = [c for i, c in enumerate(comments) if i not in unaddressed]
        got_kept = real_outcome(pr_author, kept, defaults, fast)
        if got_kept != got:
            fails.append(('not_addressed_no_effect', 'metamorphic',
                          got_kept, got))
    if not any(is_addressed(text) for _, text in comments):
        pristine = {'outcome': 'ok', 'keyword': None,
                    'options': {k: True for k in defaults}}
        if got != pristine:
            fails.append(('not_addressed_no_effect', 'pristine', pristine,
                          got))
    # 6. no partial application + 7. full outcome
    if not ambiguous:
        same_outcome = (got['outcome'] == exp['outcome'] and
                        (got['keyword'] == exp['keyword'] or
                         exp['outcome'] not in ('UnknownCommand',
                                                'NotEnoughCredentials',
                                                'NotAuthor')))
        if exp['blocking_comment'] is not None and \
                got['outcome'] in BLOCKING + ('CRASH:UndefinedError',):
            extra = {k: v for k, v in got['options'].items()
                     if exp['options'].get(k) != v}
            blocking_keys = decl[exp['blocking_comment']][1]
            if extra and set(extra) <= set(blocking_keys):
                fails.append(('no_partial_application',
                              'applied_before_block:%s' % ','.join(
                                  sorted(_kw_class(k) for k in extra)),
                              {'options_when_blocked': exp['options']},
                              got))
            elif extra or any(k not in got['options']
                              for k in exp['options']):
                fails.append(('outcome_mismatch', 'options_when_blocked',
                              _pub(exp), got))
        if not same_outcome:
            detail = 'exp=%s got=%s' % (exp['outcome'], got['outcome'])
            if crashed:
                detail = 'crash_instead_of_explanation ' + detail
            elif got['outcome'] == exp['outcome']:
                detail += ' (keyword differs)'
            fails.append(('outcome_mismatch', detail, _pub(exp), got))
        elif exp['outcome'] in ('ok',) + tuple(COMMAND_RESULT.values()) and \
                got['options'] != exp['options']:
            fails.append(('outcome_mismatch', 'options', _pub(exp), got))
    return fails, _pub(exp), got


def _pub(exp):
    out = {k: exp[k] for k in ('outcome', 'keyword', 'options')}
    if exp.get('either'):
        out['either'] = exp['either']
    return out


def _short(res):
    txt = res['outcome']
    if res.get('keyword') is not None:
        txt += '(%r)' % res['keyword']
    txt += ' options=%s' % json.dumps(res['options'], sort_keys=True)
    if res.get('either'):
        txt += ' either=%s' % ','.join(sorted(set(res['either'])))
    return txt


def _kw_class(key):
    if key in OPTION_NAMES:
        if _is_privileged_option(key):
            return 'PRIV'
        if _is_authored_option(key):
            return 'AUTH'
        if key == 'after_pull_request':
            return 'APR'
        return 'OPEN'
    if key in COMMAND_NAMES:
        return 'CMD'
    return 'UNK'


# --------------------------------------------------------------------------
# Structural signatures
# --------------------------------------------------------------------------
def text_shape(text):
    """Replace keywords by their class, keep every other character."""
    out = []
    i, n = 0, len(text)
    while i < n:
        c = text[i]
        if text.startswith(PREFIX, i) and (i == 0 or text[i - 1] in WS):
            out.append('@R')
            i += len(PREFIX)
        elif c in _ALNUM:
            j = i
            while j < n and text[j] in _ALNUM:
                j += 1
            word = text[i:j]
            cls = _kw_class(word)
            out.append(cls if cls != 'UNK' else
                       ('9' if _all_ascii_digits(word) else 'w'))
            i = j
        elif c == '\n':
            out.append('\\n')
            i += 1
        elif c == '\t':
            out.append('\\t')
            i += 1
        else:
            out.append(c)
            i += 1
    return ''.join(out)


def role(who, pr_author):
    if who == ROBOT:
        return 'robot'
    if who == pr_author:
        return 'author+admin' if who in ADMINS else 'author'
    if who in ADMINS:
        return 'admin'
    return 'other'


def case_signature(pr_author, comments):
    return ' ; '.join('%s: %s' % (role(w, pr_author), text_shape(t))
                      for w, t in comments)


# --------------------------------------------------------------------------
# Bounded grammars
# --------------------------------------------------------------------------
SEP_CHARS = ' ,.-:;|+'


def tokenizer_texts(tier):
    """Part (a) grammar: lead x address x glue x tokens/separators x trail."""
    thorough = tier == 'thorough'
    leads = ['', ' ', '\n', 'hi ']
    addrs = ['@robot', '@robot:', '@robotx', '@Robot', 'robot', '@other', '']
    glues = ['', ' ', '  ', ':', ': ', ',', ', ', '.', '-', ' - ', ';', '|',
             '+', '/', ' /', '\n', '=', '!']
    trails = ['', ' ', '.', ',', ' -', '!', ' please', '\n', ' /', '/',
              ' thanks.', ':', ';', '|', '+', ' =', '?']
    toks = ['approve', 'wait=1', 'foo_2', '=', 'a=b=c', 'x']
    seen = set()

    def emit(text):
        if text not in seen:
            seen.add(text)
            return True
        return False

    # every lead x address x glue x trail around one token
    for lead, addr, glue, trail in itertools.product(leads, addrs, glues,
                                                     trails):
        for tok in toks[:3]:
            text = lead + addr + glue + tok + trail
            if emit(text):
                yield text
    # every 1 and 2 character separator between two tokens, three forms
    seps = [a for a in SEP_CHARS] + [a + b for a in SEP_CHARS
                                     for b in SEP_CHARS]
    seps += ['\n', '\t', '/', ' /', ', /', '  -  ', '!', '?', ' and ', '@',
             ' @robot ', '\n/', '=', ' = ']
    for sep in seps:
        for t1, t2 in itertools.product(toks, toks):
            for text in ('@robot ' + t1 + sep + t2,
                         '@robot: ' + t1 + sep + t2,
                         '@robot' + sep + t1 + sep + t2,
                         '/' + t1 + sep + '/' + t2,
                         '/' + t1 + sep + t2,
                         t1 + sep + '/' + t2,
                         '@robot /' + t1 + sep + '/' + t2):
                for trail in ('', '.', ' !'):
                    if emit(text + trail):
                        yield text + trail
    # three tokens, core separators
    core_seps = [' ', ',', ', ', '.', ' - ', '-', ';', ':', '|', '+', '\n',
                 '/', ' /', '!']
    core_toks = toks if thorough else toks[:3]
    if not thorough:
        core_seps = core_seps[:9] + ['/', ' /', '!']
    for s1, s2 in itertools.product(core_seps, core_seps):
        for t1, t2, t3 in itertools.product(core_toks, repeat=3):
            for text in ('@robot ' + t1 + s1 + t2 + s2 + t3,
                         '@robot:' + t1 + s1 + t2 + s2 + t3,
                         '/' + t1 + s1 + '/' + t2 + s2 + '/' + t3,
                         '/' + t1 + s1 + '/' + t2 + s2 + t3):
                if emit(text):
                    yield text


OPEN_Q = ['wait']
PRIV_Q = ['bypass_jira_check']
CMD_Q = ['help', 'build', 'reset']
UNK_Q = ['foo']


def comment_pool(tier):
    """Part (b) pool of comment texts (all with a definite scan)."""
    thorough = tier == 'thorough'
    if thorough:
        opts = [o for o in OPTION_NAMES if o != 'after_pull_request']
        cmds = list(COMMAND_NAMES)
        unk = ['foo', 'bypass_all']
        pair_kws = ['bypass_jira_check', 'bypass_build_status', 'approve',
                    'wait', 'unanimity', 'foo', 'help', 'status', 'build',
                    'after_pull_request=4']
    else:
        opts = PRIV_Q + ['approve'] + OPEN_Q
        cmds = CMD_Q
        unk = UNK_Q
        pair_kws = ['bypass_jira_check', 'approve', 'wait', 'foo', 'help',
                    'build']
    singles = opts + cmds + unk + ['after_pull_request=4',
                                   'after_pull_request', 'wait=a=b']
    pool = []
    # not addressed to the robot
    pool += ['bypass_jira_check approve', 'please @robot approve wait',
             '@robotx bypass_jira_check', '@other approve',
             'I approve, bypass_jira_check /wait']
    for kw in singles:
        pool.append('@robot ' + kw)
        pool.append('/' + kw)
    for kw in (opts[:3] + cmds[:1] + unk[:1]):
        pool.append('@robot: ' + kw)
        pool.append('  @robot ' + kw + ' \n')
    for k1, k2 in itertools.product(pair_kws, repeat=2):
        pool.append('@robot %s %s' % (k1, k2))
        pool.append('/%s /%s' % (k1, k2))
    # several dependencies declared in ONE comment: each of them holds the pull request back (C12)
    pool += ['@robot after_pull_request=4 after_pull_request=5',
             '@robot after_pull_request=5 after_pull_request=4',
             '/after_pull_request=4 /after_pull_request=5']
    sep_pairs = [('wait', 'approve')]
    if thorough:
        sep_pairs += [('bypass_jira_check', 'wait'), ('wait', 'foo'),
                      ('status', 'wait')]
    for k1, k2 in sep_pairs:
        for sep in [', ', ' - ', ',', '.', '-', ';', ':', '|', '+', '\n']:
            pool.append('@robot: %s%s%s' % (k1, sep, k2))
            pool.append('/%s%s/%s' % (k1, sep, k2))
    for kw in ['wait', 'help', 'status'][:3 if thorough else 2]:
        for trail in ['.', '!', '?', ' please']:
            pool.append('@robot %s%s' % (kw, trail))
    out = []
    for text in pool:
        if text not in out:
            tokens, amb = scan_options(text)
            if not amb:
                out.append(text)
    return out


def roles_for(pr_author):
    # posters: the author, an admin (not the author), another user, the robot
    return [pr_author, 'admin', 'other', ROBOT]


PR_AUTHORS = ('author', 'author_admin')


def _semantic_tasks(tier, seed):
    """Tasks are (kind, pr_author, defaults, first comment index range...)."""
    pool = comment_pool(tier)
    n = len(pool)
    tasks = []
    for pr_author in PR_AUTHORS:
        tasks.append(('len01', pr_author, ()))
        for who_i in range(4):
            for lo in range(0, n, 8):
                tasks.append(('len2', pr_author, (), who_i, lo,
                              min(n, lo + 8)))
    # command line granted option: reduced enumeration
    for pr_author in PR_AUTHORS:
        tasks.append(('len01', pr_author, ('bypass_jira_check',)))
    n3 = 4000000 if tier == 'thorough' else 24000
    chunks = 64 if tier == 'thorough' else 32
    for k in range(chunks):
        tasks.append(('len3', seed * 1000 + k, n3 // chunks))
    return tasks


def _semantic_cases(task, pool):
    kind = task[0]
    if kind == 'len01':
        _, pr_author, defaults = task
        yield pr_author, [], defaults
        for who in roles_for(pr_author):
            for text in pool:
                yield pr_author, [(who, text)], defaults
    elif kind == 'len2':
        _, pr_author, defaults, who_i, lo, hi = task
        who1 = roles_for(pr_author)[who_i]
        for text1 in pool[lo:hi]:
            for who2 in roles_for(pr_author):
                for text2 in pool:
                    yield pr_author, [(who1, text1), (who2, text2)], defaults
    elif kind == 'len3':
        _, rseed, count = task
        rng = random.Random(rseed)
        for _ in range(count):
            pr_author = rng.choice(PR_AUTHORS)
            defaults = () if rng.random() < 0.9 else ('bypass_jira_check',)
            comments = [(rng.choice(roles_for(pr_author)), rng.choice(pool))
                        for _ in range(3)]
            yield pr_author, comments, defaults


# --------------------------------------------------------------------------
# Workers
# --------------------------------------------------------------------------
_TIER = ['quick']


def _add_failure(sigs, clause, sig, case, expected, got):
    failure = {'case': case, 'clause': clause, 'signature': sig,
               'expected': expected, 'got': got}
    size = len(json.dumps(case, default=str))
    cur = sigs.get(sig)
    if cur is None:
        sigs[sig] = [1, size, failure]
    else:
        cur[0] += 1
        if size < cur[1]:
            cur[1], cur[2] = size, failure


def _run_tok_chunk(texts):
    sigs = {}
    nontrivial = 0
    either = 0
    samples = []
    outcomes = {}
    for text in texts:
        exp, amb = scan_options(text)
        if exp is not None:
            nontrivial += 1
        if amb:
            either += 1
            rt = real_tokens(text)
            for a in amb:
                key = '%s:%s' % (a, 'real_ignores' if rt is None else
                                 ('real_tokenizes_same' if rt == exp else
                                  'real_tokenizes_differently'))
                outcomes[key] = outcomes.get(key, 0) + 1
        fail = check_tokenizer(text)
        if fail:
            clause, expected, got = fail
            sig = 'tokenizer|%s|exp=%s|got=%s' % (
                text_shape(text),
                'none' if exp is None else 'tokens',
                'none' if got['tokens'] is None else 'tokens')
            _add_failure(sigs, clause, sig, {'kind': 'text', 'text': text},
                         expected, got)
        elif exp and len(exp) > 1 and not samples and not amb:
            samples.append({'case': {'kind': 'text', 'text': text},
                            'expected': exp, 'got': real_tokens(text)})
    return {'cases': len(texts), 'nontrivial': nontrivial, 'either': either,
            'sigs': sigs, 'samples': samples, 'outcomes': {},
            'either_stats': outcomes}


def _run_sem_task(task):
    tier = _TIER[0]
    pool = _POOLS.get(tier)
    if pool is None:
        pool = _POOLS[tier] = comment_pool(tier)
    sigs = {}
    cases = 0
    nontrivial = 0
    outcomes = {}
    samples = []
    for pr_author, comments, defaults in _semantic_cases(task, pool):
        cases += 1
        fails, exp, got = check_case(pr_author, comments, defaults)
        outcomes[got['outcome']] = outcomes.get(got['outcome'], 0) + 1
        if got['outcome'] != 'ok' or got['options']:
            nontrivial += 1
        case = {'kind': 'comments', 'pr_author': pr_author,
                'comments': [list(c) for c in comments],
                'defaults': list(defaults)}
        if not fails and len(samples) < 1 and got['options'] and \
                len(comments) == 2 and got['outcome'] != 'ok':
            samples.append({'case': case, 'expected': exp, 'got': got})
        csig = None
        for clause, detail, expected, got_f in fails:
            if csig is None:
                csig = case_signature(pr_author, comments)
            sig = '%s|%s|%s' % (clause, detail, csig)
            _add_failure(sigs, clause, sig, case, expected, got_f)
    return {'cases': cases, 'nontrivial': nontrivial, 'either': 0,
            'sigs': sigs, 'samples': samples, 'outcomes': outcomes}


_POOLS = {}


def _dispatch(arg):
    kind, tier, payload = arg
    _TIER[0] = tier
    if kind == 'tok':
        return _run_tok_chunk(payload)
    return _run_sem_task(payload)


# --------------------------------------------------------------------------
# Probes
# --------------------------------------------------------------------------
def _probes():
    probes = {}

    def sem(label, pr_author, comments, defaults=()):
        got = real_outcome(pr_author, comments, defaults, fast=False)
        exp = oracle_outcome(pr_author, comments, defaults)
        probes[label] = {'comments': comments, 'real': _short(got),
                         'oracle': _short(_pub(exp)),
                         'agree': _short(got) == _short(
                             dict(_pub(exp), either=None))}

    sem('flag_with_value_false', 'author',
        [('admin', '@robot bypass_jira_check=false')])
    sem('flag_with_empty_value', 'author', [('author', '@robot wait=')])
    sem('too_many_values (TypeError path renders a template without '
        '`robot`)', 'author', [('author', '@robot wait=a=b')])
    sem('command_that_takes_no_args_given_args', 'author',
        [('author', '@robot build now')])
    sem('slash_path_comment', 'author',
        [('other', '/usr/bin/python is missing')])
    sem('option_followed_by_dot', 'author', [('author', '@robot wait.')])
    sem('option_followed_by_dot_then_robot_comment', 'author',
        [('author', '@robot wait.'), (ROBOT, 'ack')])
    sem('mention_of_other_user_with_dash', 'author',
        [('other', '@robot-dev wait')])
    sem('multi_line_command', 'author',
        [('author', '@robot help\nthanks')])
    sem('multi_line_options', 'author',
        [('author', '@robot wait\napprove')])
    sem('non_ascii_keyword', 'author', [('author', '@robot attendreé')])
    sem('mid_text_mention', 'author',
        [('admin', 'ok for me @robot bypass_jira_check')])
    sem('no_octopus_by_plain_user (USER_DOC table says admin only)',
        'author', [('other', '@robot no_octopus')])
    sem('cmdline_granted_option_and_unprivileged_comment', 'author',
        [('other', '@robot bypass_jira_check')], ('bypass_jira_check',))
    # robot names with regex metacharacters: the command regex interpolates
    # the prefix unescaped
    for robot in ('bert-e[bot]', 'robot.x', 'robot+1'):
        prefix = '@' + robot
        job = SimpleNamespace(settings={}, active_options=[])
        try:
            Reactor().handle_commands(job, prefix + ' help', prefix)
            res = 'ignored (no exception)'
        except messages.TemplateException as err:
            res = type(err).__name__
        except Exception as err:
            res = 'CRASH:%s' % type(err).__name__
        probes['handle_commands with prefix %r on %r' % (
            prefix, prefix + ' help')] = res
    probes['registry_flags'] = {
        key: {'privileged': opt.privileged, 'authored': opt.authored}
        for key, opt in sorted(Reactor.get_options().items())}
    probes['registry_vs_statement'] = [
        key for key, opt in Reactor.get_options().items()
        if opt.privileged != _is_privileged_option(key) or
        opt.authored != _is_authored_option(key)]
    return probes


# --------------------------------------------------------------------------
# run / replay
# --------------------------------------------------------------------------
def run(tier: str = 'quick', seed: int = 0, jobs: int = 16) -> dict:
    t0 = time.time()
    texts = list(tokenizer_texts(tier))
    chunk = 4000
    work = [('tok', tier, texts[i:i + chunk])
            for i in range(0, len(texts), chunk)]
    pool_texts = comment_pool(tier)
    sem_tasks = _semantic_tasks(tier, seed)
    work += [('sem', tier, t) for t in sem_tasks]
    if jobs > 1:
        with mp.Pool(jobs) as pool:
            results = pool.map(_dispatch, work, chunksize=1)
    else:
        results = [_dispatch(w) for w in work]
    n_tok = len(texts)
    cases = sum(r['cases'] for r in results)
    nontrivial = sum(r['nontrivial'] for r in results)
    either = sum(r['either'] for r in results)
    sigs = {}
    outcomes = {}
    samples = []
    either_stats = {}
    for res in results:
        for k, v in res.get('either_stats', {}).items():
            either_stats[k] = either_stats.get(k, 0) + v
        samples.extend(res['samples'])
        for k, v in res['outcomes'].items():
            outcomes[k] = outcomes.get(k, 0) + v
        for sig, (count, size, failure) in res['sigs'].items():
            cur = sigs.get(sig)
            if cur is None:
                sigs[sig] = [count, size, failure]
            else:
                cur[0] += count
                if size < cur[1]:
                    cur[1], cur[2] = size, failure
    n_failures = sum(v[0] for v in sigs.values())
    groups = {}
    per_group = {}
    chosen_texts = set()
    failures = []
    for sig, (count, size, failure) in sorted(
            sigs.items(), key=lambda kv: (kv[1][1], kv[0])):
        parts = sig.split('|')
        if parts[0] == 'tokenizer':
            coarse = 'tokenizer|' + '|'.join(parts[2:])
        else:
            coarse = parts[0] + '|' + parts[1]
        groups[coarse] = groups.get(coarse, 0) + count
        texts_key = (coarse, json.dumps(
            [c[1] for c in failure['case'].get('comments', [])] or
            failure['case'].get('text')))
        if texts_key in chosen_texts:
            continue
        per_group[coarse] = per_group.get(coarse, 0) + 1
        if per_group[coarse] <= 3 and len(failures) < 50:
            chosen_texts.add(texts_key)
            failures.append(failure)
    # cross-check the cached-environment rendering against the real render
    rng = random.Random(seed)
    mismatched_render = 0
    checked_render = 0
    for _ in range(150):
        pr_author = rng.choice(PR_AUTHORS)
        comments = [(rng.choice(roles_for(pr_author)),
                     rng.choice(pool_texts)) for _ in range(2)]
        checked_render += 1
        if real_outcome(pr_author, comments, (), fast=True) != \
                real_outcome(pr_author, comments, (), fast=False):
            mismatched_render += 1
    picked = samples[:2] + [s for s in samples
                            if s['case']['kind'] == 'comments'][:3]
    notes = [
        "part (a): scanner written from the documented forms only (no re); "
        "real tokens observed by running the real handle_options on a "
        "Reactor subclass whose dispatch() accepts and records every keyword",
        "part (b): real handle_comments driven with a real PullRequestJob "
        "(real SettingsDict, real active_options), stub bert_e/pull_request; "
        "commands._reset stubbed to report command_executed:<name>; the "
        "jinja Environment is built once per process instead of per message "
        "(cross-checked: %d/%d sampled cases differ from the unpatched "
        "render; replay() uses the unpatched render)" % (
            mismatched_render, checked_render),
        "either (tokenizer): prefix glued to a separator other than ':' "
        "('@robot-dev wait', '@robot.wait'): another user name or an option "
        "declaration; a '/' inside the mention form ('@robot /wait'); in "
        "slash form: dangling '/', '/a/b' without separator, trailing "
        "separator ('/wait,').  Both 'ignored' and the token list accepted",
        "either (semantics, only probed): flag option with a value "
        "('bypass_jira_check=false' is stored as the truthy string 'false'; "
        "'wait=' stores the falsy '')",
        "oracle decisions: '@robotx ...' and mid-text mentions are not "
        "addressed; an option declaration whose first keyword is a command "
        "is a command call (its other words are arguments); a command name "
        "after an option keyword is an unknown keyword; commands are only "
        "looked for after the robot's last comment, newest first; the "
        "command word ends at whitespace or at one of ',.-:;|+=/' (so "
        "'status?' is unknown, as in the upstream test, but 'wait.' is the "
        "option wait)",
        "statement privileges used by the oracle: bypass_* privileged, "
        "approve author-only, everything else open (USER_DOC.md table says "
        "no_octopus needs admin rights; the registry does not; see probes)",
        "per-author settings (pr_author_options) are not consulted by "
        "handle_comments at all; command-line options are modelled through "
        "gwf.setup(defaults) exactly as bert_e.py does",
        "real outcomes seen: %s" % json.dumps(outcomes, sort_keys=True),
        "tokenizer either-cases: %d; what the real code does with them: %s"
        % (either, json.dumps(either_stats, sort_keys=True)),
    ]
    return {
        'name': NAME,
        'scope': ('%s tier: (a) %d comment texts (lead x address form x glue '
                  'x 1-3 keyword[=arg] tokens x every 1-2 char separator of '
                  '%r x trailing text); (b) pool of %d comment texts x 4 '
                  'poster roles x 2 kinds of PR author (plain, admin): all '
                  'lists of length <= 2, %d seeded lists of length 3, plus '
                  'command-line granted option on length <= 1' % (
                      tier, n_tok, SEP_CHARS, len(pool_texts),
                      sum(t[2] for t in sem_tasks if t[0] == 'len3'))),
        'cases': cases,
        'distinct_nontrivial': nontrivial,
        'rule': ('real handle_options tokens == independent scanner; real '
                 'handle_comments outcome (exception class, keyword, truthy '
                 'options) == oracle derived from the statement; clause '
                 'checks listed in failure_groups'),
        'notes': notes,
        'probes': _probes(),
        'n_failures': n_failures,
        'failures': failures,
        'failure_signatures': {sig: v[0] for sig, v in sorted(
            sigs.items(), key=lambda kv: -kv[1][0])[:200]},
        'n_failure_signatures': len(sigs),
        'failure_groups': dict(sorted(groups.items(), key=lambda kv: -kv[1])),
        'clause_failures': {c: sum(v[0] for k, v in sigs.items()
                                   if k.split('|')[0] == c) for c in CLAUSES},
        'samples': picked[:5],
        'exhaustive': False,
        'exhaustive_note': 'part (a) and comment lists of length <= 2 are '
                           'exhaustive over the bounded grammar/pool; length '
                           '3 is a seeded sample',
        'wall_s': round(time.time() - t0, 2),
    }


def replay(case: dict) -> dict:
    if case.get('kind') == 'text':
        fail = check_tokenizer(case['text'])
        if fail:
            return {'ok': False, 'clause': fail[0], 'expected': fail[1],
                    'got': fail[2]}
        exp, amb = scan_options(case['text'])
        return {'ok': True, 'clause': 'tokenizer',
                'expected': {'tokens': exp, 'either_none': bool(amb)},
                'got': {'tokens': real_tokens(case['text'])}}
    comments = [tuple(c) for c in case['comments']]
    fails, exp, got = check_case(case['pr_author'], comments,
                                 tuple(case.get('defaults', ())), fast=False)
    _ensure_defaults(())
    if fails:
        clause, detail, expected, got_f = fails[0]
        return {'ok': False, 'clause': clause, 'detail': detail,
                'expected': expected, 'got': got_f,
                'all_failed_clauses': [f[0] for f in fails]}
    return {'ok': True, 'clause': 'all', 'expected': exp, 'got': got}


if __name__ == '__main__':
    _tier = sys.argv[1] if len(sys.argv) > 1 else 'quick'
    _seed = int(sys.argv[2]) if len(sys.argv) > 2 else 0
    print(json.dumps(run(_tier, _seed), indent=1, default=str))
