"""Bounded exploration of short histories on the REAL bert-e system (real
git repositories + the in-memory mock git host), checking system-level
invariants after EVERY Bert-E evaluation.

    python bounded/system_histories.py [quick|thorough] [seed]
    python bounded/system_histories.py replay '<json history>'
    python bounded/system_histories.py selftest     # every clause can fail

A history is ``{'world': {...}, 'events': [[kind, args...], ...]}``; pull
requests are referred to by ordinal (0 = first pull request created by the
history).  See RULE / SCOPE below, ``run`` and ``replay``.
"""
import sys

sys.dont_write_bytecode = True
for _p in ('/repo', '/verif'):
    if _p not in sys.path:
        sys.path.insert(0, _p)

import collections  # noqa: E402
import contextlib  # noqa: E402
import json  # noqa: E402
import multiprocessing  # noqa: E402
import os  # noqa: E402
import random  # noqa: E402
import re  # noqa: E402
import shutil  # noqa: E402
import tempfile  # noqa: E402
import time  # noqa: E402
import traceback  # noqa: E402
import warnings  # noqa: E402

warnings.filterwarnings('ignore')

from harness import system as hs  # noqa: E402
from harness.system import World  # noqa: E402
from bert_e.lib.git import Repository as GitRepository  # noqa: E402

NAME = 'system_histories'

CLAUSES = ('C01_inclusion', 'C03_green_destinations', 'C19_one_to_one',
           'C08_foreign_refs', 'C12_holds', 'C10_no_repeat')

RULE = (
    "Every history runs on a fresh World (real bare git repo + work clone + "
    "mock host, cascade development/4.3 < 5.1 < 10.0, optional "
    "stabilization/5.1.0, a foreign branch user/foo). The remote refs, the "
    "pull requests and the comments are snapshotted before and after EVERY "
    "Bert-E evaluation (PR webhook, commit webhook, admin job, and each "
    "follow-up PR job of rebuild_queues) and the clauses are checked on the "
    "pair of snapshots. "
    "C01_inclusion: for every consecutive pair of the merge paths "
    "(dev chain ordered by version; stabilization/x.y.z -> development/x.y), "
    "if tip(a) was an ancestor of tip(b) before the evaluation (or the pair "
    "is new) it still is after (git merge-base --is-ancestor on the remote). "
    "C03_green_destinations (queue worlds): every development/stabilization/"
    "hotfix ref moved by an evaluation points to a commit whose mock-host "
    "build status for build_key 'pre-merge' is SUCCESSFUL; exempt: "
    "force_merge_queues jobs, and pull request evaluations run with "
    "bypass_build_status in a no-queue world (queue merges are never exempt:"
    " bypass_build_status is a per-PR option, the queue must be green). "
    "C19_one_to_one: for every non-robot pull request P (dst D): the remote "
    "branches w/*/<P.src> are a subset of {w/<v>/<P.src> : v a cascade target"
    " of D beyond the first}; every OPEN robot pull request from such a "
    "branch has title 'INTEGRATION [PR#<P.id> > <its dst>]...', its dst is "
    "the target of its w/ branch, and there is at most one OPEN per target; "
    "every OPEN robot PR belongs to some P. "
    "C08_foreign_refs: every ref (branch or tag) that is not w/*, q/* or a "
    "development/stabilization/hotfix branch is identical before and after "
    "an evaluation (no move, no delete), no new such ref appears; destination"
    " branches are never deleted and only fast-forwarded; with a 'race' event"
    " a third party pushes user/race<n> right after the robot's clone and "
    "that branch must survive the evaluation. "
    "C12_holds: a pull request that, before the evaluation, had an "
    "'@robot wait' comment or an after_pull_request=<id> dependency whose "
    "pull request is not MERGED, gets during the evaluation no new "
    "w/*/<src> branch, no new q/w/<id>/* branch and does not become MERGED. "
    "C10_no_repeat: after every evaluation no two consecutive robot comments "
    "of a pull request have the same body; at the end of every history each "
    "non-robot pull request is evaluated 3 times in a row with nothing else "
    "happening: the 3rd evaluation must change no ref, create no pull "
    "request and post no comment."
)

DSTS = ('development/4.3', 'development/5.1', 'development/10.0')
STAB = 'stabilization/5.1.0'
VERSION_RE = re.compile(
    r'^(development|stabilization|hotfix)/(\d+)(?:\.(\d+))?(?:\.(\d+))?$')


def _scope(tier):
    n, length = (40, 4) if tier == 'quick' else (600, 6)
    return (
        "%s tier: about %d seeded histories of up to %d events (each followed "
        "by the 3x re-evaluation of every pull request) over the events: "
        "create PR on development/4.3|5.1|10.0 (or stabilization/5.1.0), "
        "evaluate PR, set build SUCCESSFUL/FAILED on the source + integration"
        " tips of a PR, set the builds of the q/w/* tips (all or of one PR) "
        "SUCCESSFUL/FAILED then evaluate a commit webhook on the q/<last> tip,"
        " push a new commit on a source branch, comment '@robot wait', "
        "comment '@robot after_pull_request=<id>', decline a PR, admin "
        "rebuild_queues (+ its follow-up PR jobs), admin force_merge_queues / "
        "delete_queues (thorough), evaluations racing with a third party "
        "branch creation. Worlds: evaluations run with bypass_all or with "
        "bypass_all_but(bypass_build_status); with/without a stabilization "
        "branch; a few no-queue worlds (thorough). At most 3 pull requests "
        "per history, one commit per source branch (+ pushes), no conflicting"
        " contents, no direct pushes on destination or w/ branches, no "
        "hotfix branches, approvals and Jira always bypassed." %
        (tier, n, length))


# ----------------------------------------------------------------------- #
# running one history
# ----------------------------------------------------------------------- #
def _vkey(name):
    m = VERSION_RE.match(name)
    kind, major, minor, micro = m.groups()
    return (int(major), 10 ** 6 if minor is None else int(minor))


def merge_pairs(refs):
    """Consecutive pairs (a, b) such that a must be included in b."""
    devs = sorted((n for n in refs if n.startswith('development/') and
                   VERSION_RE.match(n)), key=_vkey)
    pairs = list(zip(devs, devs[1:]))
    for n in sorted(refs):
        m = VERSION_RE.match(n)
        if m and m.group(1) == 'stabilization':
            dev = 'development/%s.%s' % (m.group(2), m.group(3))
            if dev in refs:
                pairs.append((n, dev))
    return pairs


def targets_of(dst, refs):
    """Cascade targets of a pull request on ``dst`` (dst first)."""
    devs = sorted((n for n in refs if n.startswith('development/') and
                   VERSION_RE.match(n)), key=_vkey)
    m = VERSION_RE.match(dst)
    if not m:
        return [dst]
    if m.group(1) == 'development':
        return [d for d in devs if _vkey(d) >= _vkey(dst)]
    if m.group(1) == 'stabilization':
        return [dst] + [d for d in devs if _vkey(d) >= _vkey(dst)]
    return [dst]


def version_of(dst):
    return dst.split('/', 1)[1]


class Runner:
    def __init__(self, case, quiesce=True):
        self.case = case
        wcfg = dict(case.get('world') or {})
        self.opt_name = wcfg.get('options', 'bypass_all')
        options = (list(hs.BYPASS_ALL) if self.opt_name == 'bypass_all'
                   else hs.bypass_all_but(['bypass_build_status']))
        self.options = options
        self.use_queue = wcfg.get('use_queue', True)
        self.quiesce = quiesce
        self.w = World(stabilization=wcfg.get('stabilization', False),
                       use_queue=self.use_queue, options=options)
        self.prs = []              # ordinal -> {'id', 'src', 'dst'}
        self.wait = set()          # ordinals with a wait comment
        self.after = {}            # ordinal -> set of ordinals
        self.failures = []
        self.seen = set()
        self.counts = collections.Counter()
        self.observations = collections.Counter()
        self.steps = []
        self.nontrivial = False
        self._snap = None
        self._anc = {}
        self._nrace = 0
        self._cur = None           # (step index, label)

    # ---- snapshots ------------------------------------------------------
    def snap(self):
        if self._snap is None:
            w = self.w
            prs = w.pull_requests()
            self._snap = {
                'refs': w.remote_refs(),
                'prs': {p['id']: p for p in prs},
                'comments': {p['id']: w.comments(p['id']) for p in prs},
            }
        return self._snap

    def dirty(self):
        self._snap = None

    def anc(self, a, b):
        key = (a, b)
        if key not in self._anc:
            self._anc[key] = self.w.is_ancestor(a, b)
        return self._anc[key]

    # ---- failures ---------------------------------------------------------
    def fail(self, clause, kind, expected, got):
        signature = '%s:%s' % (clause, kind)
        if signature in self.seen:
            return
        self.seen.add(signature)
        step, label = self._cur or (None, None)
        self.failures.append({
            'case': self.case, 'clause': clause, 'signature': signature,
            'expected': expected, 'got': got, 'step': step, 'eval': label})

    def ordinal(self, pr_id):
        for k, p in enumerate(self.prs):
            if p['id'] == pr_id:
                return k
        return None

    def held(self, k, S0):
        if k in self.wait:
            return 'wait'
        for dep in self.after.get(k, ()):
            if dep >= len(self.prs):
                continue
            dep_id = self.prs[dep]['id']
            if S0['prs'][dep_id]['state'] != 'MERGED':
                return 'after_pull_request'
        return None

    # ---- one evaluation + all clauses -----------------------------------
    def evaluation(self, label, fn, ctx):
        S0 = self.snap()
        self._cur = (len(self.steps), label)
        race = ctx.get('race')
        if race:
            with self.third_party_branch(race) as fired:
                out = fn()
            ctx['race_fired'] = bool(fired)
        else:
            out = fn()
        self.dirty()
        S1 = self.snap()
        if self.w.is_crash():
            self.observations['crash:%s' % out] += 1
        elif out in ('IncoherentQueues', 'QueueOutOfOrder',
                     'PullRequestSkewDetected', 'DevBranchesNotSelfContained'):
            self.observations['outcome:%s' % out] += 1
        self.check(S0, S1, ctx, out)
        return out

    @contextlib.contextmanager
    def third_party_branch(self, name):
        """A third party pushes branch ``name`` right after the robot's first
        clone of the evaluation (hook on lib.git.Repository.clone; the code
        under test is untouched)."""
        orig = GitRepository.clone
        fired = []
        world = self.w

        def clone(repo):
            orig(repo)
            if not fired and repo is not world.gitrepo:
                fired.append(name)
                world.create_branch(name, 'development/4.3')

        GitRepository.clone = clone
        try:
            yield fired
        finally:
            GitRepository.clone = orig

    def check(self, S0, S1, ctx, out):
        w = self.w
        r0, r1 = S0['refs'], S1['refs']
        dests0 = [n for n in r0 if hs.DEST_RE.match(n)]
        moved = [n for n in dests0 if n in r1 and r1[n] != r0[n]]
        if moved or any(n.startswith('q/w/') and n not in r0 for n in r1):
            self.nontrivial = True
        ctx['moved'] = moved

        # -- C01 ---------------------------------------------------------
        for a, b in merge_pairs(r1):
            self.counts['C01_inclusion'] += 1
            before = (a not in r0 or b not in r0 or self.anc(r0[a], r0[b]))
            if before and not self.anc(r1[a], r1[b]):
                self.fail('C01_inclusion', '%s not in %s' % (a, b),
                          '%s tip is an ancestor of %s tip' % (a, b),
                          {'outcome': out, a: r1[a], b: r1[b]})

        # -- C03 ---------------------------------------------------------
        if self.use_queue:
            exempt = ctx.get('job') == 'force_merge_queues'
            for n in moved:
                if exempt:
                    continue
                self.counts['C03_green_destinations'] += 1
                status = w.build_status(r1[n])
                if status != 'SUCCESSFUL':
                    self.fail('C03_green_destinations',
                              'moved to %s commit after %s' % (
                                  status, ctx['kind']),
                              'SUCCESSFUL build on new tip of %s' % n,
                              {'outcome': out, 'branch': n, 'sha': r1[n],
                               'status': status})

        # -- C08 ---------------------------------------------------------
        for n, sha in r0.items():
            if n.startswith(('w/', 'q/')):
                continue
            self.counts['C08_foreign_refs'] += 1
            if hs.DEST_RE.match(n):
                if n not in r1:
                    if ctx.get('job') != 'delete_branch':
                        self.fail('C08_foreign_refs', 'destination deleted',
                                  '%s still exists' % n, {'outcome': out})
                elif r1[n] != sha and not self.anc(sha, r1[n]):
                    self.fail('C08_foreign_refs',
                              'destination not fast-forwarded',
                              'old tip of %s ancestor of new tip' % n,
                              {'outcome': out, 'old': sha, 'new': r1[n]})
                continue
            kind = self.ref_kind(n)
            if n not in r1:
                self.fail('C08_foreign_refs', 'deleted %s' % kind,
                          '%s untouched' % n, {'outcome': out, 'ref': n})
            elif r1[n] != sha:
                self.fail('C08_foreign_refs', 'moved %s' % kind,
                          '%s untouched' % n,
                          {'outcome': out, 'ref': n, 'old': sha,
                           'new': r1[n]})
        race = ctx.get('race')
        for n in r1:
            if n in r0 or n.startswith(('w/', 'q/')) or n == race:
                continue
            if hs.DEST_RE.match(n) and ctx.get('job') == 'create_branch':
                continue
            self.counts['C08_foreign_refs'] += 1
            self.fail('C08_foreign_refs', 'created %s' % self.ref_kind(n),
                      'no new ref outside w/ and q/', {'outcome': out,
                                                       'ref': n})
        if race and ctx.get('race_fired'):
            self.counts['C08_foreign_refs'] += 1
            if race not in r1:
                self.fail('C08_foreign_refs',
                          'third party branch created mid-job pruned (%s)'
                          % ctx['kind'],
                          '%s (pushed by a third party right after the '
                          'robot cloned) still exists' % race,
                          {'outcome': out, 'ref': race, 'present': False})

        # -- C19 ---------------------------------------------------------
        robot_open = {pid: p for pid, p in S1['prs'].items()
                      if p['author'] == hs.ROBOT and p['state'] == 'OPEN'}
        claimed = set()
        for k, P in enumerate(self.prs):
            self.counts['C19_one_to_one'] += 1
            targets = targets_of(P['dst'], r1)
            expected = {'w/%s/%s' % (version_of(t), P['src']): t
                        for t in targets[1:]}
            wrefs = [n for n in r1
                     if re.match(r'^w/[^/]+/%s$' % re.escape(P['src']), n)]
            extra = [n for n in wrefs if n not in expected]
            if extra:
                self.fail('C19_one_to_one', 'unexpected w/ branch',
                          sorted(expected), {'outcome': out, 'extra': extra})
            per_target = collections.Counter()
            for pid, p in robot_open.items():
                if not re.match(r'^w/[^/]+/%s$' % re.escape(P['src']),
                                p['src']):
                    continue
                claimed.add(pid)
                want = 'INTEGRATION [PR#%d > %s]' % (P['id'], p['dst'])
                if not p['title'].startswith(want):
                    self.fail('C19_one_to_one', 'integration PR title',
                              want, {'outcome': out, 'title': p['title']})
                if expected.get(p['src']) != p['dst']:
                    self.fail('C19_one_to_one',
                              'integration PR src/dst mismatch',
                              expected, {'outcome': out, 'src': p['src'],
                                         'dst': p['dst']})
                per_target[p['dst']] += 1
            dup = {t: c for t, c in per_target.items() if c > 1}
            if dup:
                self.fail('C19_one_to_one', 'several OPEN integration PRs',
                          'at most one OPEN integration PR per target',
                          {'outcome': out, 'counts': dup})
        orphans = sorted(set(robot_open) - claimed)
        if orphans:
            self.fail('C19_one_to_one', 'orphan integration PR',
                      'every robot PR belongs to a pull request',
                      {'outcome': out,
                       'prs': [robot_open[i] for i in orphans]})

        # -- C12 ---------------------------------------------------------
        for k, P in enumerate(self.prs):
            why = self.held(k, S0)
            if not why:
                continue
            self.counts['C12_holds'] += 1
            was_queued = any(n.startswith('q/w/%d/' % P['id']) for n in r0)
            tag = '%s%s' % (why, ', queued before the hold' if was_queued
                            else '')
            new_w = [n for n in r1 if n not in r0 and
                     re.match(r'^w/[^/]+/%s$' % re.escape(P['src']), n)]
            new_q = [n for n in r1 if n not in r0 and
                     n.startswith('q/w/%d/' % P['id'])]
            merged = (S0['prs'][P['id']]['state'] != 'MERGED' and
                      S1['prs'][P['id']]['state'] == 'MERGED')
            if new_w:
                self.fail('C12_holds', 'w/ branch created (%s)' % tag,
                          'no w/ branch for a held PR',
                          {'outcome': out, 'kind': ctx['kind'],
                           'created': new_w})
            if new_q:
                self.fail('C12_holds', 'queued (%s)' % tag,
                          'no queue entry for a held PR',
                          {'outcome': out, 'kind': ctx['kind'],
                           'created': new_q})
            if merged:
                self.fail('C12_holds', 'merged (%s) by %s evaluation' % (
                    tag, ctx['kind']),
                    'a held PR is not merged',
                    {'outcome': out, 'pr': P, 'moved': moved})

        # -- observation: declined pull requests merged ------------------
        for pid, p in S1['prs'].items():
            if (p['author'] != hs.ROBOT and p['state'] == 'DECLINED' and
                    p['src'] in r1 and p['dst'] in r1 and moved and
                    not self.anc(r0.get(p['src'], r1[p['src']]),
                                 r0[p['dst']]) and
                    self.anc(r1[p['src']], r1[p['dst']])):
                self.observations['declined PR content merged'] += 1

        # -- C10 (a) -----------------------------------------------------
        for pid, comments in S1['comments'].items():
            if len(comments) == len(S0['comments'].get(pid, ())):
                continue
            self.counts['C10_no_repeat'] += 1
            bodies = [t for a, t in comments if a == hs.ROBOT]
            for x, y in zip(bodies, bodies[1:]):
                if x == y:
                    self.fail('C10_no_repeat',
                              'same comment twice in a row (%s)' %
                              _title(x),
                              'consecutive robot comments differ',
                              {'outcome': out, 'pr_id': pid,
                               'comment': x[:200]})
                    break

    def ref_kind(self, name):
        if name.startswith('refs/tags/'):
            return 'tag'
        if any(p['src'] == name for p in self.prs):
            return 'source branch'
        return name.split('/')[0] + '/ branch'

    # ---- events ---------------------------------------------------------
    def pr(self, k):
        if isinstance(k, int) and 0 <= k < len(self.prs):
            return self.prs[k]
        return None

    def apply(self, event):
        kind, args = event[0], list(event[1:])
        w = self.w
        rec = {'event': list(event), 'evals': []}

        def ev(label, fn, **ctx):
            out = self.evaluation(label, fn, ctx)
            rec['evals'].append([label, out])
            if ctx.get('moved'):
                rec.setdefault('moved', []).extend(ctx['moved'])
            return out

        if kind == 'create':
            dst = args[0]
            if dst not in self.snap()['refs'] or len(self.prs) >= 4:
                rec['skipped'] = True
            else:
                k = len(self.prs)
                src = 'bugfix/TEST-%04d' % (k + 1)
                pid = w.create_pr(src, dst)
                self.prs.append({'id': pid, 'src': src, 'dst': dst})
                rec['pr_id'] = pid
                self.dirty()
        elif kind in ('eval', 'race_eval', 'eval_bypass'):
            P = self.pr(args[0])
            if not P:
                rec['skipped'] = True
            else:
                ctx = {'kind': 'pr', 'pr': args[0]}
                options = None
                if kind == 'race_eval':
                    self._nrace += 1
                    ctx['race'] = 'user/race%d' % self._nrace
                if kind == 'eval_bypass':
                    options = list(hs.BYPASS_ALL)
                    ctx['bypass_build'] = True
                ev('evaluate_pr(#%d)' % P['id'],
                   lambda: w.evaluate_pr(P['id'], options), **ctx)
        elif kind == 'build':
            P = self.pr(args[0])
            if not P:
                rec['skipped'] = True
            else:
                rec['shas'] = len(w.set_build(P['id'], args[1]))
        elif kind in ('queue', 'race_queue'):
            state = args[0]
            which = args[1] if len(args) > 1 else None
            P = self.pr(which) if which is not None else None
            if which is not None and not P:
                rec['skipped'] = True
            else:
                shas = w.set_queue_builds(state, P['id'] if P else None)
                rec['shas'] = len(shas)
                refs = w.remote_refs()
                qs = sorted((n for n in refs if re.match(r'^q/[\d.]+$', n)),
                            key=lambda n: [int(x) for x in
                                           n[2:].split('.')])
                if not qs:
                    rec['skipped'] = 'no queue'
                else:
                    ctx = {'kind': 'commit'}
                    if kind == 'race_queue':
                        self._nrace += 1
                        ctx['race'] = 'user/race%d' % self._nrace
                    sha = refs[qs[-1]]
                    ev('evaluate_commit(%s tip)' % qs[-1],
                       lambda: w.evaluate_commit(sha), **ctx)
        elif kind == 'push':
            P = self.pr(args[0])
            if not P or P['src'] not in self.snap()['refs']:
                rec['skipped'] = True
            else:
                w.push_commit(P['src'])
                self.dirty()
        elif kind == 'wait':
            P = self.pr(args[0])
            if not P:
                rec['skipped'] = True
            else:
                w.comment(P['id'], '@%s wait' % hs.ROBOT)
                self.wait.add(args[0])
                self.dirty()
        elif kind == 'after':
            P, Q = self.pr(args[0]), self.pr(args[1])
            if not P or not Q or P is Q:
                rec['skipped'] = True
            else:
                w.comment(P['id'], '@%s after_pull_request=%d' % (
                    hs.ROBOT, Q['id']))
                self.after.setdefault(args[0], set()).add(args[1])
                self.dirty()
        elif kind == 'decline':
            P = self.pr(args[0])
            if not P:
                rec['skipped'] = True
            else:
                w.decline(P['id'])
                self.dirty()
        elif kind in ('rebuild', 'force_merge', 'delete_queues'):
            job = {'rebuild': 'rebuild_queues',
                   'force_merge': 'force_merge_queues',
                   'delete_queues': 'delete_queues'}[kind]
            ev('admin_job(%s)' % job,
               lambda: w.admin_job(job, drain=False), kind='job', job=job)
            while w.pending_prs:
                pid = w.pending_prs[0]
                ev('follow-up evaluate_pr(#%d)' % pid,
                   lambda: w.run_pending()[1], kind='pr',
                   pr=self.ordinal(pid))
        else:
            raise ValueError('unknown event %r' % (event,))
        self.steps.append(rec)
        return rec

    def quiescence(self):
        """C10 (b): 3 evaluations in a row of every pull request."""
        w = self.w
        rec = {'event': ['<re-evaluate every PR 3 times>'], 'evals': []}
        for k, P in enumerate(self.prs):
            outs = []
            for i in range(3):
                S0 = self.snap()
                label = 're-evaluation %d/3 of #%d' % (i + 1, P['id'])
                out = self.evaluation(
                    label, lambda: w.evaluate_pr(P['id']),
                    {'kind': 'pr', 'pr': k})
                outs.append(out)
                S1 = self.snap()
            self.counts['C10_no_repeat'] += 1
            changed = sorted(n for n in set(S0['refs']) | set(S1['refs'])
                             if S0['refs'].get(n) != S1['refs'].get(n))
            new_prs = sorted(set(S1['prs']) - set(S0['prs']))
            new_comments = {
                pid: [c for c in S1['comments'][pid][
                    len(S0['comments'].get(pid, ())):]]
                for pid in S1['comments']
                if len(S1['comments'][pid]) !=
                len(S0['comments'].get(pid, ()))}
            if changed or new_prs or new_comments:
                self._cur = (len(self.steps), label)
                what = '+'.join(x for x, y in (
                    ('refs', changed), ('prs', new_prs),
                    ('comments', new_comments)) if y)
                self.fail('C10_no_repeat',
                          '3rd re-evaluation not idle (%s; outcomes %s)' % (
                              what, '/'.join(outs)),
                          '3rd evaluation in an unchanged world is a no-op',
                          {'outcomes': outs, 'refs': changed,
                           'new_prs': new_prs,
                           'new_comments': {
                               str(k_): [(a, _title(t)) for a, t in v]
                               for k_, v in new_comments.items()}})
            rec['evals'].append(['#%d x3' % P['id'], '/'.join(outs)])
        self.steps.append(rec)

    def run(self):
        for event in self.case['events']:
            self.apply(event)
        if self.quiesce:
            self.quiescence()

    def close(self):
        self.w.close()


def _title(body):
    for line in body.splitlines():
        line = line.strip().strip('#').strip()
        if line:
            return line[:60]
    return ''


def run_history(case):
    """Run one history in this process.  Always closes the World."""
    t0 = time.time()
    res = {'case': case, 'failures': [], 'steps': [], 'evaluations': 0,
           'nontrivial': False, 'counts': {}, 'observations': {},
           'error': None}
    runner = None
    try:
        runner = Runner(case)
        runner.run()
    except BaseException as err:      # harness error, not a violation
        res['error'] = '%s: %s\n%s' % (type(err).__name__, err,
                                      traceback.format_exc()[-1500:])
    finally:
        if runner is not None:
            res.update(failures=runner.failures, steps=runner.steps,
                       evaluations=runner.w.evaluations,
                       nontrivial=runner.nontrivial,
                       counts=dict(runner.counts),
                       observations=dict(runner.observations))
            runner.close()
    res['wall_s'] = round(time.time() - t0, 2)
    return res


# ----------------------------------------------------------------------- #
# histories
# ----------------------------------------------------------------------- #
A = {'options': 'bypass_all'}
B = {'options': 'need_build'}
AS = {'options': 'bypass_all', 'stabilization': True}
BS = {'options': 'need_build', 'stabilization': True}
AN = {'options': 'bypass_all', 'use_queue': False}
BN = {'options': 'need_build', 'use_queue': False}
D43, D51, D100 = DSTS
OK, KO = 'SUCCESSFUL', 'FAILED'


def curated(tier):
    """Hand-written histories giving baseline coverage of every clause."""
    H = [
        (A, [['create', D43], ['eval', 0], ['queue', OK]]),
        (A, [['create', D43], ['eval', 0], ['queue', KO], ['queue', OK]]),
        (A, [['create', D43], ['create', D51], ['eval', 0], ['eval', 1]]),
        (A, [['create', D51], ['eval', 0], ['push', 0], ['queue', OK]]),
        (A, [['create', D43], ['wait', 0], ['eval', 0], ['rebuild']]),
        (A, [['create', D43], ['eval', 0], ['wait', 0], ['queue', OK]]),
        (A, [['create', D43], ['eval', 0], ['decline', 0], ['eval', 0]]),
        (A, [['create', D100], ['eval', 0], ['rebuild'], ['queue', OK]]),
        (B, [['create', D43], ['eval', 0], ['build', 0, OK], ['eval', 0]]),
        (B, [['create', D43], ['eval', 0], ['build', 0, KO], ['eval', 0]]),
        (A, [['create', D43], ['create', D43], ['after', 1, 0],
             ['eval', 1]]),
        (AS, [['create', STAB], ['eval', 0], ['queue', OK]]),
        (A, [['create', D43], ['eval', 0], ['race_queue', OK]]),
        (A, [['create', D51], ['eval', 0], ['decline', 0], ['queue', OK]]),
        (A, [['create', D43], ['eval', 0], ['wait', 0], ['rebuild']]),
        (A, [['create', D43], ['eval', 0], ['decline', 0], ['race_eval', 0]]),
    ]
    if tier != 'quick':
        H += [
            (B, [['create', D43], ['eval', 0], ['build', 0, OK], ['eval', 0],
                 ['queue', OK]]),
            (B, [['create', D43], ['eval', 0], ['build', 0, OK], ['eval', 0],
                 ['push', 0], ['queue', OK]]),
            (A, [['create', D43], ['create', D51], ['eval', 0], ['eval', 1],
                 ['queue', KO, 0], ['queue', OK, 1]]),
            (A, [['create', D43], ['create', D51], ['eval', 0], ['eval', 1],
                 ['queue', OK, 0], ['queue', KO, 1]]),
            (A, [['create', D43], ['create', D43], ['after', 1, 0],
                 ['eval', 0], ['eval', 1], ['queue', OK]]),
            (A, [['create', D43], ['create', D43], ['eval', 0], ['eval', 1],
                 ['after', 1, 0], ['queue', OK, 1]]),
            (A, [['create', D43], ['eval', 0], ['force_merge']]),
            (A, [['create', D43], ['eval', 0], ['delete_queues'],
                 ['eval', 0], ['queue', OK]]),
            (AN, [['create', D43], ['eval', 0]]),
            (BN, [['create', D43], ['eval', 0], ['build', 0, OK],
                  ['eval', 0]]),
            (BN, [['create', D43], ['eval', 0], ['build', 0, KO],
                  ['eval_bypass', 0]]),
            (AN, [['create', D51], ['wait', 0], ['eval', 0]]),
            (AN, [['create', D43], ['race_eval', 0]]),
            (BS, [['create', STAB], ['eval', 0], ['build', 0, OK],
                  ['eval', 0], ['queue', OK]]),
            (AS, [['create', D43], ['create', STAB], ['eval', 0],
                  ['eval', 1], ['queue', OK]]),
            (A, [['create', D43], ['eval', 0], ['decline', 0], ['eval', 0],
                 ['queue', OK]]),
            (A, [['create', D43], ['eval', 0], ['push', 0], ['eval', 0],
                 ['queue', OK], ['eval', 0]]),
            (A, [['create', D43], ['eval', 0], ['push', 0], ['queue', OK],
                 ['eval', 0], ['queue', OK]]),
            (A, [['create', D43], ['create', D100], ['eval', 1],
                 ['eval', 0], ['rebuild'], ['queue', OK]]),
            (A, [['create', D43], ['eval', 0], ['create', D43], ['eval', 1],
                 ['decline', 0], ['rebuild']]),
        ]
    return [{'world': dict(wd), 'events': [list(e) for e in ev]}
            for wd, ev in H]


def random_history(rng, max_len, tier):
    r = rng.random()
    if tier == 'quick':
        world = dict(A if r < 0.6 else B if r < 0.8 else AS)
    else:
        world = dict(A if r < 0.42 else B if r < 0.67 else AS if r < 0.8
                     else BS if r < 0.9 else AN if r < 0.95 else BN)
    need_build = world['options'] == 'need_build'
    queue = world.get('use_queue', True)
    dsts = list(DSTS) + ([STAB] if world.get('stabilization') else [])
    length = max_len if rng.random() < 0.75 else rng.randint(
        max(2, max_len - 2), max_len)
    events = [['create', rng.choice(dsts)]]
    n = 1
    evaluated = set()
    while len(events) < length:
        opts = []
        if n < 3:
            opts.append((1.6 if n == 1 else 0.6, 'create'))
        opts.append((4.0 if evaluated else 7.0, 'eval'))
        if need_build and evaluated:
            opts.append((3.0, 'build'))
        if queue and evaluated:
            opts.append((3.5, 'queue'))
        opts.append((0.9 if evaluated else 0.4, 'push'))
        opts.append((0.6 if evaluated else 0.25, 'wait'))
        opts.append((0.6 if evaluated else 0.2, 'decline'))
        if n >= 2:
            opts.append((0.7, 'after'))
        if queue and evaluated:
            opts.append((0.6, 'rebuild'))
            if tier != 'quick':
                opts.append((0.25, 'force_merge'))
                opts.append((0.25, 'delete_queues'))
                opts.append((0.2, 'race_queue'))
        if tier != 'quick':
            opts.append((0.2, 'race_eval'))
            if need_build:
                opts.append((0.4, 'eval_bypass'))
        total = sum(wt for wt, _ in opts)
        x = rng.random() * total
        for wt, kind in opts:
            x -= wt
            if x <= 0:
                break
        k = rng.randrange(n)
        if kind == 'create':
            events.append(['create', rng.choice(dsts)])
            n += 1
        elif kind in ('eval', 'race_eval', 'eval_bypass'):
            # prefer a pull request not evaluated yet
            fresh = [i for i in range(n) if i not in evaluated]
            if fresh and rng.random() < 0.7:
                k = rng.choice(fresh)
            events.append([kind, k])
            evaluated.add(k)
        elif kind == 'build':
            k = rng.choice(sorted(evaluated))
            events.append(['build', k, OK if rng.random() < 0.7 else KO])
        elif kind in ('queue', 'race_queue'):
            state = OK if rng.random() < 0.7 else KO
            if n > 1 and rng.random() < 0.4:
                events.append([kind, state, k])
            else:
                events.append([kind, state])
        elif kind == 'after':
            j = rng.choice([i for i in range(n) if i != k])
            events.append(['after', k, j])
        elif kind in ('push', 'wait', 'decline'):
            events.append([kind, k])
        else:
            events.append([kind])
    return {'world': world, 'events': events}


def histories(tier, seed):
    n_total, max_len = (40, 4) if tier == 'quick' else (600, 6)
    out = curated(tier)
    seen = {json.dumps(h, sort_keys=True) for h in out}
    i = 0
    while len(out) < n_total and i < 50 * n_total:
        rng = random.Random('%s:%s:%d' % (NAME, seed, i))
        i += 1
        h = random_history(rng, max_len, tier)
        key = json.dumps(h, sort_keys=True)
        if key in seen:
            continue
        seen.add(key)
        out.append(h)
    return out


# ----------------------------------------------------------------------- #
# shrinking
# ----------------------------------------------------------------------- #
def _remove_event(case, idx):
    events = [list(e) for e in case['events']]
    removed = events.pop(idx)
    if removed[0] != 'create':
        return {'world': case['world'], 'events': events}
    k = sum(1 for e in case['events'][:idx] if e[0] == 'create')
    out = []
    for e in events:
        kind = e[0]
        refs = {'eval': [1], 'race_eval': [1], 'eval_bypass': [1],
                'build': [1], 'push': [1], 'wait': [1], 'decline': [1],
                'after': [1, 2], 'queue': [2], 'race_queue': [2]}.get(
                    kind, [])
        e = list(e)
        drop = False
        for pos in refs:
            if pos < len(e) and isinstance(e[pos], int):
                if e[pos] == k:
                    drop = True
                elif e[pos] > k:
                    e[pos] -= 1
        if not drop:
            out.append(e)
    return {'world': case['world'], 'events': out}


def _simplify_world(case):
    world = dict(case['world'])
    cands = []
    if world.get('stabilization'):
        w2 = dict(world)
        w2.pop('stabilization')
        if not any(e[0] == 'create' and e[1].startswith('stabilization/')
                   for e in case['events']):
            cands.append(w2)
    return [{'world': w_, 'events': case['events']} for w_ in cands]


def shrink(args):
    """Greedy one-event-at-a-time minimisation preserving the signature."""
    case, signature, deadline = args
    best = case
    tries = 0
    progress = True
    while progress and time.time() < deadline:
        progress = False
        cands = [_remove_event(best, i)
                 for i in reversed(range(len(best['events'])))]
        cands += _simplify_world(best)
        for cand in cands:
            if time.time() >= deadline:
                break
            if not cand['events'] or cand['events'][0][0] != 'create':
                continue
            tries += 1
            res = run_history(cand)
            hit = [f for f in res['failures'] if f['signature'] == signature]
            if hit:
                best = cand
                progress = True
                break
    res = run_history(best)
    hit = [f for f in res['failures'] if f['signature'] == signature]
    return {'signature': signature, 'case': best, 'tries': tries,
            'failure': hit[0] if hit else None, 'steps': res['steps']}


# ----------------------------------------------------------------------- #
# entry points
# ----------------------------------------------------------------------- #
def _compact(steps):
    out = []
    for s in steps:
        item = {'event': s['event']}
        if s.get('evals'):
            item['outcomes'] = [o for _, o in s['evals']]
        if s.get('moved'):
            item['moved'] = sorted(set(s['moved']))
        if s.get('skipped'):
            item['skipped'] = s['skipped']
        out.append(item)
    return out


def run(tier: str = 'quick', seed: int = 0, jobs: int = 16) -> dict:
    """Explore the seeded histories of ``tier`` with ``jobs`` worker
    processes (one World at a time per worker)."""
    t0 = time.time()
    budget = 110 if tier == 'quick' else 1700
    deadline = t0 + budget
    cases = histories(tier, seed)
    notes = []

    saved_tempdir = tempfile.tempdir
    saved_tmpenv = os.environ.get('TMPDIR')
    run_root = tempfile.mkdtemp(prefix='syshist_')
    tempfile.tempdir = run_root
    os.environ['TMPDIR'] = run_root
    results = []
    shrunk = {}
    ctx = multiprocessing.get_context('fork')
    pool = ctx.Pool(max(1, jobs))
    try:
        pending = [(c, pool.apply_async(run_history, (c,))) for c in cases]
        unfinished = 0
        for case, handle in pending:
            try:
                results.append(handle.get(
                    timeout=max(1.0, deadline - time.time())))
            except multiprocessing.TimeoutError:
                unfinished += 1
        if unfinished:
            notes.append('%d histories not finished within the %ds budget'
                         % (unfinished, budget))

        # minimal history per signature
        by_sig = {}
        for res in results:
            for f in res['failures']:
                cur = by_sig.get(f['signature'])
                if cur is None or (len(f['case']['events']) <
                                   len(cur['case']['events'])):
                    by_sig[f['signature']] = f
        if by_sig and not unfinished:
            shrink_deadline = min(deadline + 8,
                                  time.time() + (40 if tier == 'quick'
                                                 else 240))
            handles = [pool.apply_async(
                shrink, ((f['case'], sig, shrink_deadline),))
                for sig, f in sorted(by_sig.items())]
            for h in handles:
                try:
                    s = h.get(timeout=max(
                        1.0, shrink_deadline + 30 - time.time()))
                    shrunk[s['signature']] = s
                except multiprocessing.TimeoutError:
                    notes.append('a shrink did not finish in time')
    finally:
        pool.terminate()
        pool.join()
        tempfile.tempdir = saved_tempdir
        if saved_tmpenv is None:
            os.environ.pop('TMPDIR', None)
        else:
            os.environ['TMPDIR'] = saved_tmpenv
        shutil.rmtree(run_root, ignore_errors=True)

    failures, signatures = [], collections.Counter()
    clause_counts = collections.Counter({c: 0 for c in CLAUSES})
    observations = collections.Counter()
    outcome_counts = collections.Counter()
    errors = []
    for res in results:
        clause_counts.update(res['counts'])
        observations.update(res['observations'])
        if res['error']:
            errors.append({'case': res['case'], 'error': res['error']})
        for s in res['steps']:
            for _, o in s.get('evals', ()):
                for part in str(o).split('/'):
                    outcome_counts[part] += 1
        for f in res['failures']:
            signatures[f['signature']] += 1
    # report: first the minimal witness of each signature, then the others
    for sig in sorted(signatures):
        s = shrunk.get(sig)
        if s and s['failure']:
            f = dict(s['failure'])
            f['minimal'] = True
            f['steps'] = _compact(s['steps'])
        else:
            f = dict(by_sig[sig])
            f['minimal'] = False
        failures.append(f)
    for res in results:
        for f in res['failures']:
            if len(failures) >= 30:
                break
            if any(f['case'] == g['case'] and f['signature'] ==
                   g['signature'] for g in failures):
                continue
            failures.append(dict(f, minimal=False))
    if errors:
        notes.append('%d histories ended with a HARNESS error (not counted '
                     'as violations); first: %s' % (
                         len(errors), json.dumps(errors[0])[:600]))
    if observations:
        notes.append('observations (not clauses): ' + ', '.join(
            '%s x%d' % kv for kv in sorted(observations.items())))
    notes.append('evaluation outcomes: ' + ', '.join(
        '%s x%d' % kv for kv in outcome_counts.most_common()))
    notes.append('C12_holds is checked literally: a pull request queued '
                 'BEFORE the hold (wait / after_pull_request) was posted and '
                 'then merged by the queue is reported with the tag '
                 "'queued before the hold'.")
    notes.append('mock-host artefact: integration pull requests stay OPEN '
                 'after their w/ branch is deleted (the mock only computes '
                 'MERGED while the source branch exists).')
    passing = [r for r in results if not r['failures'] and not r['error']]
    passing.sort(key=lambda r: (not r['nontrivial'], -len(r['case']['events'])
                                ))
    samples = [{'case': r['case'], 'steps': _compact(r['steps'])}
               for r in passing[:3]]
    n_fail = sum(signatures.values())
    return {
        'name': NAME,
        'scope': _scope(tier),
        'cases': len(results),
        'evaluations': sum(r['evaluations'] for r in results),
        'distinct_nontrivial': sum(1 for r in results if r['nontrivial']),
        'rule': RULE,
        'notes': notes,
        'n_failures': n_fail,
        'failures': failures[:30],
        'failure_signatures': dict(signatures),
        'clause_counts': dict(clause_counts),
        'samples': samples,
        'exhaustive': False,
        'wall_s': round(time.time() - t0, 1),
    }


# ----------------------------------------------------------------------- #
# sensitivity self-test: every clause can fail
# ----------------------------------------------------------------------- #
def _mut_c01():
    from bert_e.workflow.gitwaterflow import queueing
    orig = queueing.merge_queues

    def merge_queues(queues):          # forget the newest version
        queues.pop(list(queues.keys())[-1])
        return orig(queues)
    queueing.merge_queues = merge_queues


def _mut_c03():
    from bert_e.workflow.gitwaterflow.branches import QueueCollection
    QueueCollection._recursive_lookup = lambda self, queues: None


def _mut_c19():
    from bert_e.workflow.gitwaterflow.branches import IntegrationBranch
    orig = IntegrationBranch.get_or_create_pull_request
    IntegrationBranch.get_or_create_pull_request = (
        lambda self, parent, open_prs, repo: orig(self, parent, [], repo))


def _mut_c08():
    orig = GitRepository.push_all

    def push_all(self, prune=False):   # the robot loses a local branch
        self.cmd('git branch -D user/foo || exit 0')
        return orig(self, prune=prune)
    GitRepository.push_all = push_all


def _mut_c12():
    from bert_e.workflow import gitwaterflow as gwf
    gwf.check_dependencies = lambda job: None


def _mut_c10():
    from bert_e.workflow import pr_utils
    pr_utils.find_comment = lambda *a, **k: None


SELFTEST = [
    ('C01_inclusion', _mut_c01,
     {'world': A, 'events': [['create', D43], ['eval', 0], ['queue', OK]]}),
    ('C03_green_destinations', _mut_c03,
     {'world': A, 'events': [['create', D43], ['eval', 0], ['queue', KO]]}),
    ('C19_one_to_one', _mut_c19,
     {'world': B, 'events': [['create', D43], ['eval', 0], ['eval', 0]]}),
    ('C08_foreign_refs', _mut_c08,
     {'world': A, 'events': [['create', D43], ['eval', 0], ['queue', OK]]}),
    ('C12_holds', _mut_c12,
     {'world': A, 'events': [['create', D43], ['wait', 0], ['eval', 0]]}),
    ('C10_no_repeat', _mut_c10,
     {'world': B, 'events': [['create', D43], ['eval', 0],
                             ['build', 0, KO], ['eval', 0]]}),
]


def _selftest_one(i):
    clause, mutate, case = SELFTEST[i]
    mutate()
    res = run_history(case)
    fired = sorted(f['signature'] for f in res['failures'])
    return {'clause': clause, 'mutation': mutate.__name__, 'case': case,
            'fired': fired, 'error': res['error'],
            'ok': any(s.startswith(clause + ':') for s in fired)}


def selftest(jobs: int = 6) -> dict:
    """Monkey-patch ONE defect per clause into the real code (inside a
    throw-away worker process) and check the clause reports it."""
    saved = tempfile.tempdir, os.environ.get('TMPDIR')
    run_root = tempfile.mkdtemp(prefix='syshist_')
    tempfile.tempdir = run_root
    os.environ['TMPDIR'] = run_root
    pool = multiprocessing.get_context('fork').Pool(jobs, maxtasksperchild=1)
    try:
        out = pool.map(_selftest_one, range(len(SELFTEST)), chunksize=1)
    finally:
        pool.terminate()
        pool.join()
        tempfile.tempdir = saved[0]
        if saved[1] is None:
            os.environ.pop('TMPDIR', None)
        else:
            os.environ['TMPDIR'] = saved[1]
        shutil.rmtree(run_root, ignore_errors=True)
    return {'ok': all(o['ok'] for o in out), 'mutations': out}


def replay(case: dict) -> dict:
    """Re-run one history (``{'world':..., 'events': [...]}`` or a failure
    record holding it under 'case')."""
    want = None
    if 'events' not in case and 'case' in case:
        want = case.get('signature')
        case = case['case']
    saved_tempdir = tempfile.tempdir
    saved_tmpenv = os.environ.get('TMPDIR')
    run_root = tempfile.mkdtemp(prefix='syshist_')
    tempfile.tempdir = run_root
    os.environ['TMPDIR'] = run_root
    try:
        res = run_history(case)
    finally:
        tempfile.tempdir = saved_tempdir
        if saved_tmpenv is None:
            os.environ.pop('TMPDIR', None)
        else:
            os.environ['TMPDIR'] = saved_tmpenv
        shutil.rmtree(run_root, ignore_errors=True)
    fails = res['failures']
    if want:
        fails = [f for f in fails if f['signature'] == want] or fails
    first = fails[0] if fails else {}
    return {
        'ok': not res['failures'] and not res['error'],
        'clause': first.get('clause'),
        'signature': first.get('signature'),
        'expected': first.get('expected'),
        'got': first.get('got'),
        'at': {'step': first.get('step'), 'eval': first.get('eval')}
        if first else None,
        'all_signatures': [f['signature'] for f in res['failures']],
        'error': res['error'],
        'steps': _compact(res['steps']),
        'evaluations': res['evaluations'],
    }


if __name__ == '__main__':
    _tier = sys.argv[1] if len(sys.argv) > 1 else 'quick'
    if _tier == 'replay':
        print(json.dumps(replay(json.loads(sys.argv[2])), indent=1))
    elif _tier == 'selftest':
        print(json.dumps(selftest(), indent=1))
    else:
        _seed = int(sys.argv[2]) if len(sys.argv) > 2 else 0
        print(json.dumps(run(_tier, _seed), indent=1, default=str))
