"""Bounded exhaustive native check of property C15 (``reset`` /
``force_reset``) on the REAL ``bert_e.workflow.gitwaterflow.commands._reset``
running on the in-memory ``FakeRepo``.

    python bounded/c15_reset.py [quick|thorough] [seed]

Every enumerated history is built directly on the fake server (no clone),
then the real ``_reset(job, force=False)`` and ``_reset(job, force=True)`` are
run from the same remote snapshot, under two different valid topological
``git log`` orders, and compared with an oracle written from the statement
(a literal least fixpoint over the commit DAG).  See ``run.__doc__`` and the
'rule' / 'scope' keys of the result.
"""
import sys

sys.dont_write_bytecode = True
for _p in ('/repo', '/verif'):
    if _p not in sys.path:
        sys.path.insert(0, _p)

import itertools  # noqa: E402
import json  # noqa: E402
import logging  # noqa: E402
import multiprocessing  # noqa: E402
import random  # noqa: E402
import time  # noqa: E402
import warnings  # noqa: E402
from collections import Counter  # noqa: E402
from types import SimpleNamespace  # noqa: E402

warnings.filterwarnings('ignore')

from harness.fakerepo import FakeRepo  # noqa: E402
from bert_e import exceptions as berte_exceptions  # noqa: E402
from bert_e.lib.settings_dict import SettingsDict  # noqa: E402
from bert_e.workflow.gitwaterflow import commands  # noqa: E402
from bert_e.workflow.gitwaterflow import integration  # noqa: E402
from bert_e.workflow.gitwaterflow.branches import (  # noqa: E402
    BranchCascade, branch_factory)

logging.disable(logging.CRITICAL)

NAME = 'c15_reset'
ROBOT = 'robot'
SRC = 'bugfix/PRJ-1-x'
SRC2 = 'bugfix/PRJ-2-y'           # another pull request (id 7), queued
SRC3 = 'bugfix/PRJ-1-x2'          # another pull request whose name extends SRC
VERSIONS = ('4.3', '5.1', '10.0')
WVERSIONS = ('5.1', '10.0')
INITS = ('both', 'only51', 'none')
CLAUSES = ('lossy_refused', 'refusal_leaves_remote_untouched',
           'non_lossy_resets', 'force_always_resets',
           'deletes_only_own_w_branches', 'declines_only_own_child_prs',
           'other_refs_untouched', 'next_evaluation_rebuilds',
           'order_dependent')


def dev(v):
    return 'development/' + v


def wname(v, src=SRC):
    return 'w/%s/%s' % (v, src)


# ----------------------------------------------------------------------- #
# FakeRepo extension: selectable `git log` order + a push hook.
# (fakerepo.py itself already knows `git show --pretty=%aN` and
# `git cat-file -p`; nothing else was missing for _reset.)
# ----------------------------------------------------------------------- #
class OrderRepo(FakeRepo):
    """``log_order``:
    * 'newest' - FakeRepo's own order (creation index, newest first); a valid
      children-before-parents order;
    * 'alt'    - another valid children-before-parents order (Kahn, the
      OLDEST ready commit first): incomparable commits come out in the
      opposite relative order whenever the DAG allows it;
    * 'skew'   - what git's default (commit date priority queue) walk prints
      when commit dates run backwards (older commits carry later dates): a
      parent may be printed before one of its children.  Probe only.
    """
    log_order = 'newest'
    push_hook = None
    stats = Counter()    # per process: how often an order really differs

    def _git_log(self, argv, command):
        if self.log_order == 'newest':
            return super()._git_log(argv, command)
        no_merges = False
        rng = None
        for a in argv:
            if a == '--no-merges':
                no_merges = True
            elif a == '--pretty=%H %P':
                pass
            elif a.startswith('-'):
                raise NotImplementedError(command)
            elif rng is None and '..' in a and '...' not in a:
                rng = a
            else:
                raise NotImplementedError(command)
        if rng is None:
            raise NotImplementedError(command)
        lo, hi = rng.split('..', 1)
        lo = self._resolve_or_fail(lo, command)
        hi = self._resolve_or_fail(hi, command)
        shas = set(self.ancestors(hi) - self.ancestors(lo))
        order = []
        if self.log_order == 'alt':
            nchildren = dict.fromkeys(shas, 0)
            for s in shas:
                for p in self.commits[s].parents:
                    if p in shas:
                        nchildren[p] += 1
            ready = [s for s in shas if nchildren[s] == 0]
            while ready:
                ready.sort(key=lambda s: self._order[s])
                cur = ready.pop(0)
                order.append(cur)
                for p in self.commits[cur].parents:
                    if p in shas:
                        nchildren[p] -= 1
                        if nchildren[p] == 0:
                            ready.append(p)
        elif self.log_order == 'skew':
            queue, seen = [], set()
            if hi in shas:
                queue.append(hi)
                seen.add(hi)
            while queue:
                queue.sort(key=lambda s: self._order[s])   # "latest" date
                cur = queue.pop(0)
                order.append(cur)
                for p in self.commits[cur].parents:
                    if p in shas and p not in seen:
                        seen.add(p)
                        queue.append(p)
        else:
            raise NotImplementedError(self.log_order)
        assert set(order) == shas
        if order != sorted(shas, key=lambda s: -self._order[s]):
            OrderRepo.stats[self.log_order + '_listing_differs'] += 1
        OrderRepo.stats[self.log_order + '_listings'] += 1
        out = []
        for sha in order:
            parents = self.commits[sha].parents
            if no_merges and len(parents) > 1:
                continue
            out.append(' '.join((sha,) + parents) + '\n')
        return ''.join(out)

    def _git_push(self, argv, command):
        hook, self.push_hook = self.push_hook, None
        if hook is not None:
            hook(self)
        return super()._git_push(argv, command)


# ----------------------------------------------------------------------- #
# history construction (directly on the fake server: where='remote')
# ----------------------------------------------------------------------- #
def tip(repo, name):
    return repo.remote.get(name)


def new_commit(repo, parents, author, own_file=True):
    return repo._new_commit(list(parents), author, own_file=own_file)


def reach(repo, sha):
    """own reachability (does not use FakeRepo.ancestors)."""
    seen = set()
    stack = [sha]
    while stack:
        cur = stack.pop()
        if cur in seen:
            continue
        seen.add(cur)
        stack.extend(repo.commits[cur].parents)
    return seen


def robot_merge(repo, name, heads, author=ROBOT):
    """merge `heads` into branch `name` the way git would (no commit when
    everything is already contained; merge commit otherwise)."""
    cur = tip(repo, name)
    have = reach(repo, cur)
    missing = []
    for h in heads:
        if h is not None and h not in have and h not in missing:
            missing.append(h)
    # drop heads contained in another missing head
    missing = [h for h in missing
               if not any(o != h and h in reach(repo, o) for o in missing)]
    if not missing:
        return None
    sha = new_commit(repo, [cur] + missing, author, own_file=False)
    repo.set_remote(name, sha)
    return sha


def build_base(init):
    repo = OrderRepo()
    repo.commit(dev('4.3'), 'other', 'remote')
    repo.commit(dev('4.3'), 'other', 'remote')
    repo.set_remote(dev('5.1'), tip(repo, dev('4.3')))
    repo.commit(dev('5.1'), 'other', 'remote')
    repo.set_remote(dev('10.0'), tip(repo, dev('5.1')))
    repo.commit(dev('10.0'), 'other', 'remote')
    # the pull request under test: two developer commits
    repo.set_remote(SRC, tip(repo, dev('4.3')))
    repo.commit(SRC, 'dev', 'remote')
    repo.commit(SRC, 'dev', 'remote')
    # other pull requests
    for other, author in ((SRC2, 'dev2'), (SRC3, 'dev')):
        repo.set_remote(other, tip(repo, dev('4.3')))
        repo.commit(other, author, 'remote')
    # integration branches, as Bert-E creates them
    def make_w(src, versions):
        prev = src
        for v in versions:
            w = wname(v, src)
            repo.set_remote(w, tip(repo, dev(v)))
            robot_merge(repo, w, [tip(repo, prev)])
            prev = w
    if init == 'both':
        make_w(SRC, ('5.1', '10.0'))
    elif init == 'only51':
        make_w(SRC, ('5.1',))
    make_w(SRC2, ('5.1', '10.0'))
    make_w(SRC3, ('5.1',))
    # queue of pull request 7
    prevq = None
    for v in VERSIONS:
        q = 'q/' + v
        repo.set_remote(q, tip(repo, dev(v)))
        heads = [tip(repo, SRC2 if v == '4.3' else wname(v, SRC2))]
        if prevq:
            heads.insert(0, tip(repo, prevq))
        robot_merge(repo, q, heads)
        repo.set_remote('q/w/7/%s/%s' % (v, SRC2), tip(repo, q))
        prevq = q
    repo.set_remote('user/someone', tip(repo, dev('10.0')))
    repo.commit('user/someone', 'dev', 'remote')
    return repo


def prev_of(repo, v):
    """what the integration branch of version v is fed with."""
    if v == '5.1':
        return SRC
    w51 = wname('5.1')
    return w51 if w51 in repo.remote else SRC


def apply_op(repo, op):
    """Returns False when the operation is not applicable (the sequence is
    then not part of the scope: it would duplicate a shorter one)."""
    kind = op[0]
    if kind == 'src_extend':
        repo.commit(SRC, 'dev', 'remote')
        return True
    if kind in ('src_amend', 'src_reset'):
        cur = tip(repo, SRC)
        parents = repo.commits[cur].parents
        if len(parents) != 1:
            return False                 # the tip is a merge commit
        below = parents[0] in reach(repo, tip(repo, dev('4.3')))
        if kind == 'src_amend':
            repo.set_remote(SRC, new_commit(repo, [parents[0]], 'dev'))
            return True
        if below:
            return False                 # keep at least one own commit
        repo.set_remote(SRC, parents[0])
        return True
    if kind == 'src_rebase':
        # like `git rebase development/4.3`: the non-merge commits of the
        # source that are not in 4.3 are re-created on 4.3's tip
        d = reach(repo, tip(repo, dev('4.3')))
        own = sorted((c for c in reach(repo, tip(repo, SRC)) - d
                      if len(repo.commits[c].parents) == 1),
                     key=lambda c: repo._order[c])
        if not own:
            return False
        cur = tip(repo, dev('4.3'))
        for _ in own:
            cur = new_commit(repo, [cur], 'dev')
        repo.set_remote(SRC, cur)
        return True
    if kind == 'src_merge_dst':          # only used by directed / sampled
        d = tip(repo, dev('4.3'))
        if d in reach(repo, tip(repo, SRC)):
            return False
        repo.set_remote(SRC, new_commit(repo, [tip(repo, SRC), d], 'dev',
                                        own_file=False))
        return True
    if kind == 'dst_move':
        repo.commit(dev(op[1]), 'other', 'remote')
        return True
    v = op[1]
    w = wname(v)
    if w not in repo.remote:
        return False
    if kind == 'w_commit':
        repo.commit(w, 'dev', 'remote')
        return True
    if kind in ('w_dev_merge', 'robot_update'):
        heads = [tip(repo, dev(v)), tip(repo, prev_of(repo, v))]
        author = 'dev' if kind == 'w_dev_merge' else ROBOT
        return robot_merge(repo, w, heads, author) is not None
    if kind == 'w_cherry':
        x = new_commit(repo, [tip(repo, dev(v))], 'dev')
        robot_merge(repo, w, [x])
        return True
    raise ValueError(op)


ALPHABET = (
    [('src_extend',), ('src_amend',), ('src_rebase',), ('src_reset',)] +
    [('dst_move', v) for v in VERSIONS] +
    [(k, v) for k in ('w_commit', 'w_dev_merge', 'robot_update', 'w_cherry')
     for v in WVERSIONS])
EXT_ALPHABET = ALPHABET + [('src_merge_dst',)]
NONTRIVIAL = {'src_amend', 'src_rebase', 'src_reset', 'w_commit',
              'w_dev_merge', 'w_cherry'}

# longer, hand-written histories (beyond the exhaustive depth)
DIRECTED = [
    ('both', [('dst_move', '4.3'), ('src_merge_dst',), ('src_extend',),
              ('robot_update', '5.1'), ('src_amend',)]),
    ('both', [('dst_move', '4.3'), ('src_merge_dst',), ('src_extend',),
              ('robot_update', '5.1'), ('robot_update', '10.0'),
              ('src_reset',)]),
    ('both', [('src_amend',), ('robot_update', '5.1'), ('src_rebase',),
              ('robot_update', '5.1'), ('robot_update', '10.0')]),
    ('both', [('src_amend',), ('w_dev_merge', '5.1'), ('w_commit', '5.1'),
              ('robot_update', '10.0'), ('src_extend',)]),
    ('both', [('dst_move', '5.1'), ('w_cherry', '5.1'),
              ('robot_update', '10.0'), ('dst_move', '10.0'),
              ('src_rebase',)]),
]


def build_history(case):
    repo = build_base(case['init'])
    for op in case['ops']:
        if not apply_op(repo, tuple(op)):
            return None
    return repo


# ----------------------------------------------------------------------- #
# stub host + job
# ----------------------------------------------------------------------- #
class ChildPR(object):
    def __init__(self, host, id_, src, dst, status='OPEN'):
        self.host, self.id = host, id_
        self.src_branch, self.dst_branch, self.status = src, dst, status

    def decline(self):
        self.host.declined.append(self.id)
        self.status = 'DECLINED'


class Host(object):
    def __init__(self, refs):
        self.declined = []
        self.queries = []
        self.prs = [
            ChildPR(self, 1, SRC, dev('4.3')),
            ChildPR(self, 7, SRC2, dev('4.3')),
            ChildPR(self, 3, SRC3, dev('4.3')),
            ChildPR(self, 10, wname('5.1'), dev('5.1'), 'DECLINED'),
            ChildPR(self, 71, wname('5.1', SRC2), dev('5.1')),
            ChildPR(self, 72, wname('10.0', SRC2), dev('10.0')),
            ChildPR(self, 31, wname('5.1', SRC3), dev('5.1')),
        ]
        for id_, v in ((11, '5.1'), (12, '10.0')):
            if wname(v) in refs:
                self.prs.append(ChildPR(self, id_, wname(v), dev(v)))

    def get_pull_requests(self, author=None, src_branch=None, status='OPEN'):
        self.queries.append(src_branch if isinstance(src_branch, str)
                            else list(src_branch or []))
        if isinstance(src_branch, str):
            src_branch = [src_branch]
        return [pr for pr in self.prs if pr.status == status and
                (author is None or getattr(pr, 'author', None) == author) and
                (src_branch is None or pr.src_branch in src_branch)]


def make_job(repo, host):
    settings = SettingsDict({}, {
        'robot': ROBOT, 'robot_email': 'r@x', 'no_octopus': False,
        'repository_owner': 'owner', 'repository_slug': 'fakerepo',
        'repository_host': 'mock'})
    src = branch_factory(repo, SRC)
    dst = branch_factory(repo, dev('4.3'))
    repo.clone()
    cascade = BranchCascade()
    cascade.build(repo, dst)
    return SimpleNamespace(
        settings=settings,
        git=SimpleNamespace(repo=repo, src_branch=src, dst_branch=dst,
                            cascade=cascade),
        pull_request=SimpleNamespace(id=1, src_branch=SRC,
                                     dst_branch=dev('4.3'), author='dev'),
        project_repo=host, active_options=[])


def run_real(repo, snap, force, order, hook=None):
    """one execution of the real _reset from the snapshot."""
    repo.restore(snap)
    repo.log_order = order
    repo.push_hook = None
    before = dict(repo.remote)
    host = Host(before)
    ntrace = len(repo.trace)
    raised = None
    try:
        job = make_job(repo, host)
        repo.push_hook = hook
        commands._reset(job, force=force)
    except berte_exceptions.TemplateException as err:
        raised = type(err).__name__
        if getattr(err, 'kwargs', {}).get('couldnt_decline'):
            raised += '+couldnt_decline'
    except Exception as err:  # noqa: any other exception is an observation
        raised = 'exception:%s' % type(err).__name__
    finally:
        repo.push_hook = None
        repo.log_order = 'newest'
    after = dict(repo.remote)
    return {
        'raised': raised,
        'deleted': sorted(set(before) - set(after)),
        'created': sorted(set(after) - set(before)),
        'moved': sorted(n for n in before if n in after and
                        before[n] != after[n]),
        'declined': sorted(host.declined),
        'queried': sorted({n for q in host.queries for n in
                           ([q] if isinstance(q, str) else q)}),
        'trace': [list(t) for t in repo.trace[ntrace:]],
    }


# ----------------------------------------------------------------------- #
# the oracle (from the statement)
# ----------------------------------------------------------------------- #
def fixpoint(repo, w_set, d_set, start):
    f = set(start)
    changed = True
    while changed:
        changed = False
        for c in w_set:
            if c in f:
                continue
            parents = repo.commits[c].parents
            if len(parents) == 1 and (parents[0] in f or parents[0] in d_set):
                f.add(c)
                changed = True
    return f


def commit_kind(repo, c, w_set, d_set, src_set, f):
    cm = repo.commits[c]
    who = 'robot' if cm.author == ROBOT else \
        ('dev' if cm.author == 'dev' else 'other')
    if len(cm.parents) != 1:
        return '%s_merge' % who
    p = cm.parents[0]
    pm = repo.commits[p]
    if p in d_set:
        on = 'destination'
    elif len(pm.parents) > 1:
        on = ('robot_merge' if pm.author == ROBOT else 'manual_merge')
        on += '_of_source' if p in src_set else '_of_w'
    elif p in f:
        on = 'source_version_commit'
    else:
        on = 'manual_commit'
    return '%s_commit_on_%s' % (who, on)


def oracle(repo, refs):
    """Expected verdict + diagnostics, from the remote refs."""
    own = []
    lossy_kinds = set()
    merge_only_kinds = set()
    src_tip = refs[SRC]
    for v in VERSIONS:
        w = wname(v)
        if w not in refs:
            continue
        own.append(w)
        d_set = reach(repo, refs[dev(v)])
        w_set = reach(repo, refs[w]) - d_set
        src_set = reach(repo, src_tip) - d_set
        f = fixpoint(repo, w_set, d_set, src_set)
        for c in w_set:
            if repo.commits[c].author != ROBOT and c not in f:
                lossy_kinds.add(commit_kind(repo, c, w_set, d_set, src_set,
                                            f))
        # diagnostic only (signature of disagreements): commits that are in
        # F only because F starts from ALL commits of the source, merges
        # included
        f_nm = fixpoint(repo, w_set, d_set,
                        {c for c in src_set
                         if len(repo.commits[c].parents) < 2})
        for c in w_set:
            if repo.commits[c].author != ROBOT and c in f and \
                    c not in f_nm and len(repo.commits[c].parents) == 1:
                merge_only_kinds.add(commit_kind(repo, c, w_set, d_set,
                                                 src_set, f_nm))
    open_children = {wname('5.1'): 11, wname('10.0'): 12}
    return {'lossy': bool(lossy_kinds), 'own': own,
            'lossy_kinds': sorted(lossy_kinds),
            'via_source_merge_kinds': sorted(merge_only_kinds),
            'declined': sorted(open_children[w] for w in own
                               if w in open_children)}


def check_outcome(exp, got, force):
    """list of (clause, signature, expected, got) disagreements."""
    out = []
    want_reset = force or not exp['lossy']
    did_reset = (got['raised'] or '').startswith('ResetComplete')
    touched = bool(got['deleted'] or got['created'] or got['moved'] or
                   got['declined'] or got['trace'])
    if got['raised'] not in ('ResetComplete', 'LossyResetWarning'):
        clause = 'force_always_resets' if force else (
            'lossy_refused' if exp['lossy'] else 'non_lossy_resets')
        out.append((clause, 'raised:%s' % got['raised'],
                    'ResetComplete' if want_reset else 'LossyResetWarning',
                    got))
    elif force and not did_reset:
        out.append(('force_always_resets', 'force_refused', 'ResetComplete',
                    got))
    elif not force and exp['lossy'] and did_reset:
        out.append(('lossy_refused',
                    'not_refused:' + '+'.join(exp['lossy_kinds']),
                    'LossyResetWarning', got))
    elif not force and not exp['lossy'] and not did_reset:
        out.append(('non_lossy_resets',
                    'refused_without_manual_work:' +
                    ('+'.join(exp['via_source_merge_kinds']) or
                     'unexplained'),
                    'ResetComplete', got))
    if not did_reset:
        if touched and got['raised'] == 'LossyResetWarning':
            out.append(('refusal_leaves_remote_untouched',
                        'refusal_touched_remote', 'no change', got))
        return out
    own = sorted(exp['own'])
    if got['deleted'] != own:
        extra = sorted(set(got['deleted']) - set(own))
        miss = sorted(set(own) - set(got['deleted']))
        out.append(('deletes_only_own_w_branches',
                    'deleted_extra=%s;kept=%s' % (extra, miss), own, got))
    if got['declined'] != exp['declined'] or \
            set(got['queried']) - set(own):
        out.append(('declines_only_own_child_prs',
                    'declined=%s;queried_foreign=%s' % (
                        got['declined'],
                        sorted(set(got['queried']) - set(own))),
                    exp['declined'], got))
    bad_trace = [t for t in got['trace']
                 if not (t[0] in ('prune', 'delete') and t[1] in own)]
    if got['created'] or got['moved'] or bad_trace or \
            (set(got['deleted']) - set(own)):
        out.append(('other_refs_untouched',
                    'created=%s;moved=%s;deleted=%s' % (
                        got['created'], got['moved'],
                        sorted(set(got['deleted']) - set(own))),
                    'only own w/ branches deleted', got))
    return out


def check_rebuild(repo):
    """'the next evaluation rebuilds the integration branches': after a
    completed reset, a fresh clone + the real create/update functions."""
    repo.reset()
    repo.log_order = 'newest'
    host = Host(dict(repo.remote))
    try:
        job = make_job(repo, host)
        wbranches = list(integration.create_integration_branches(job))
        integration.update_integration_branches(job, wbranches)
    except Exception as err:  # noqa
        return 'raised:%s' % type(err).__name__
    devs = set()
    for v in VERSIONS:
        devs |= reach(repo, repo.remote[dev(v)])
    for v in WVERSIONS:
        w = wname(v)
        if w not in repo.local:
            return 'missing:%s' % w
        have = reach(repo, repo.local[w])
        if repo.remote[SRC] not in have or repo.remote[dev(v)] not in have:
            return 'incomplete:%s' % w
        s_set = reach(repo, repo.remote[SRC])
        for c in have - devs - s_set:
            if len(repo.commits[c].parents) < 2:
                return 'foreign_commit_in:%s' % w
    return None


def light(got):
    return {k: got[k] for k in ('raised', 'deleted', 'declined')}


def evaluate(case, with_rebuild=True, with_skew=True):
    """Runs one history.  Returns None when the sequence is not applicable,
    else {'failures': [...], 'either': [...], 'summary': {...}}."""
    repo = build_history(case)
    if repo is None:
        return None
    snap = repo.snapshot()
    refs = dict(repo.remote)
    exp = oracle(repo, refs)
    failures, either = [], []
    results = {}
    for force in (False, True):
        for order in ('newest', 'alt'):
            results[(force, order)] = run_real(repo, snap, force, order)
        a, b = results[(force, 'newest')], results[(force, 'alt')]
        if a != b:
            failures.append({
                'clause': 'order_dependent',
                'signature': 'order_dependent:force=%s:%s/%s' % (
                    force, a['raised'], b['raised']),
                'expected': 'either', 'got': {'newest': a, 'alt': b}})
        seen = set()
        for order in ('newest', 'alt'):
            for clause, sig, e, g in check_outcome(exp, results[(force, order)],
                                                   force):
                if (clause, sig) in seen:
                    continue
                seen.add((clause, sig))
                failures.append({'clause': clause, 'signature': sig,
                                 'expected': e, 'got': g,
                                 'mode': 'force_reset' if force else 'reset',
                                 'order': order})
    if with_rebuild and \
            results[(True, 'newest')]['raised'] == 'ResetComplete':
        # the remote is currently the one left by the last run (force, alt):
        # redo force/newest to be explicit
        run_real(repo, snap, True, 'newest')
        why = check_rebuild(repo)
        if why:
            failures.append({'clause': 'next_evaluation_rebuilds',
                             'signature': 'rebuild:' + why.split(':')[0],
                             'expected': 'w branches rebuilt', 'got': why,
                             'mode': 'force_reset', 'order': 'newest'})
    if with_skew:
        s = run_real(repo, snap, False, 'skew')
        a = results[(False, 'newest')]
        if s['raised'] != a['raised']:
            either.append({'signature': 'order_dependent:clock_skew:%s->%s'
                           % (a['raised'], s['raised']),
                           'expected': 'either',
                           'oracle_lossy': exp['lossy'],
                           'got': {'newest': light(a), 'skew': light(s)}})
    summary = {'lossy': exp['lossy'], 'own': exp['own'],
               'reset': light(results[(False, 'newest')]),
               'force_reset': light(results[(True, 'newest')])}
    return {'failures': failures, 'either': either, 'summary': summary,
            'exp': exp}


# ----------------------------------------------------------------------- #
# enumeration
# ----------------------------------------------------------------------- #
def is_nontrivial(ops):
    return any(op[0] in NONTRIVIAL for op in ops)


def _worker(task):
    logging.disable(logging.CRITICAL)
    kind = task[0]
    out = {'cases': 0, 'nontrivial': 0, 'skipped': 0, 'failures': [],
           'either': [], 'samples': [], 'lossy': 0, 'clause_counts': Counter(),
           'sigs': Counter(), 'either_sigs': Counter()}
    OrderRepo.stats.clear()
    if kind == 'enum':
        _, init, prefix, maxlen = task
        if len(prefix) < 2 or maxlen <= len(prefix):
            seqs = [prefix]
        else:
            seqs = [prefix]
            for n in range(1, maxlen - len(prefix) + 1):
                for tail in itertools.product(ALPHABET, repeat=n):
                    seqs.append(prefix + tail)
        cases = ({'init': init, 'ops': [list(o) for o in s]} for s in seqs)
    else:
        cases = iter(task[1])
    dead = set()       # inapplicable prefixes
    for case in cases:
        key = tuple(tuple(o) for o in case['ops'])
        if any(key[:i] in dead for i in range(1, len(key))):
            out['skipped'] += 1
            continue
        res = evaluate(case)
        if res is None:
            out['skipped'] += 1
            if kind == 'enum':
                # find the shortest dead prefix to prune extensions
                for i in range(1, len(key) + 1):
                    if build_history({'init': case['init'],
                                      'ops': [list(o) for o in key[:i]]}) \
                            is None:
                        dead.add(key[:i])
                        break
            continue
        out['cases'] += 1
        out['nontrivial'] += is_nontrivial(case['ops'])
        out['lossy'] += res['exp']['lossy']
        cc = out['clause_counts']
        summ = res['summary']
        did = [summ[m]['raised'] == 'ResetComplete'
               for m in ('reset', 'force_reset')]
        cc['lossy_refused:checked'] += res['exp']['lossy']
        cc['non_lossy_resets:checked'] += not res['exp']['lossy']
        cc['refusal_leaves_remote_untouched:checked'] += \
            summ['reset']['raised'] == 'LossyResetWarning'
        cc['force_always_resets:checked'] += 1
        cc['order_dependent:checked'] += 1
        cc['next_evaluation_rebuilds:checked'] += did[1]
        for c in ('deletes_only_own_w_branches', 'other_refs_untouched',
                  'declines_only_own_child_prs'):
            cc[c + ':checked(completed resets)'] += sum(did)
        for f in res['failures']:
            out['clause_counts'][f['clause'] + ':failed'] += 1
            out['sigs'][f['signature']] += 1
            out['failures'].append(dict(f, case=case))
        for e in res['either']:
            out['either_sigs'][e['signature']] += 1
            out['either'].append(dict(e, case=case))
        if not res['failures'] and len(out['samples']) < 2 and \
                is_nontrivial(case['ops']):
            out['samples'].append({'case': case, 'summary': res['summary']})
    # keep the transfer small: the shortest examples of each signature
    out['failures'].sort(key=lambda f: (len(f['case']['ops']),
                                        json.dumps(f['case'])))
    keep, per = [], Counter()
    for f in out['failures']:
        if per[f['signature']] < 3:
            per[f['signature']] += 1
            keep.append(f)
    out['failures'] = keep
    out['either'].sort(key=lambda f: (f['oracle_lossy'],
                                      len(f['case']['ops'])))
    out['either'] = out['either'][:2]
    out['order_stats'] = Counter(OrderRepo.stats)
    return out


def _tasks(tier, seed):
    maxlen = 3 if tier == 'quick' else 4
    tasks = []
    for init in INITS:
        tasks.append(('enum', init, (), maxlen))
        for a in ALPHABET:
            tasks.append(('enum', init, (a,), maxlen))
            for b in ALPHABET:
                tasks.append(('enum', init, (a, b), maxlen))
    tasks.append(('list', [{'init': i, 'ops': [list(o) for o in ops]}
                           for i, ops in DIRECTED]))
    rng = random.Random(seed)
    n_random = 1500 if tier == 'quick' else 24000
    lo, hi = (4, 6) if tier == 'quick' else (5, 8)
    sampled = []
    for _ in range(n_random):
        n = rng.randint(lo, hi)
        sampled.append({'init': rng.choice(INITS[:2]),
                        'ops': [list(rng.choice(EXT_ALPHABET))
                                for _ in range(n)]})
    for i in range(0, len(sampled), 100):
        tasks.append(('list', sampled[i:i + 100]))
    return tasks, maxlen, n_random, (lo, hi)


RULE = (
    "oracle (from the statement, least fixpoint over the commit DAG): for "
    "each existing w/<v>/<src> of the PR, D = commits reachable from "
    "development/<v>, W = reachable(w) - D, F = lfp containing "
    "reachable(src) - D and closed under 'single-parent commit of W whose "
    "parent is in F or D'; lossy := some commit of some W has author != "
    "robot and is not in F.  reset: lossy -> LossyResetWarning and the "
    "remote, the child PRs and FakeRepo.trace are unchanged; not lossy -> "
    "ResetComplete, exactly the existing w/<v>/<src> deleted, exactly the "
    "OPEN child PRs on those names declined, get_pull_requests asked about "
    "those names only, every other ref at the same sha.  force_reset: the "
    "not-lossy outcome always.  After a completed reset the real "
    "create_integration_branches + update_integration_branches on a fresh "
    "clone rebuild w/5.1 and w/10.0 containing source + destination.  Each "
    "run is made under two valid children-before-parents `git log` orders "
    "(newest-first and oldest-ready-first); a difference is reported as "
    "'order_dependent:'.")


def run(tier: str = 'quick', seed: int = 0, jobs: int = 16) -> dict:
    """Enumerate every applicable sequence of operations (length 0..3 quick,
    0..4 thorough) over the 15-letter alphabet, for 3 initial states (both
    integration branches / only w/5.1 / none), plus directed longer
    histories and seeded random longer sequences over the alphabet extended
    with 'the source merges its destination'."""
    t0 = time.time()
    tasks, maxlen, n_random, (lo, hi) = _tasks(tier, seed)
    # big tasks first
    tasks.sort(key=lambda t: -(len(ALPHABET) ** (maxlen - len(t[2]))
                               if t[0] == 'enum' and len(t[2]) == 2 else 1))
    if jobs > 1:
        ctx = multiprocessing.get_context('fork')
        with ctx.Pool(jobs) as pool:
            parts = pool.map(_worker, tasks, chunksize=1)
    else:
        parts = [_worker(t) for t in tasks]
    tot = {'cases': 0, 'nontrivial': 0, 'skipped': 0, 'lossy': 0}
    clause_counts, sigs, either_sigs = Counter(), Counter(), Counter()
    failures, either, samples = [], [], []
    order_stats = Counter()
    for p in parts:
        order_stats.update(p['order_stats'])
        for k in tot:
            tot[k] += p[k]
        clause_counts.update(p['clause_counts'])
        sigs.update(p['sigs'])
        either_sigs.update(p['either_sigs'])
        failures.extend(p['failures'])
        either.extend(p['either'])
        samples.extend(p['samples'])
    failures.sort(key=lambda f: (len(f['case']['ops']),
                                 json.dumps(f['case'])))
    # <= 50 failures, the shortest examples of every signature first
    picked, per = [], Counter()
    for rank in range(8):
        for f in failures:
            if per[f['signature']] == rank and len(picked) < 50:
                if not any(f is g for g in picked):
                    per[f['signature']] += 1
                    picked.append(f)
    either.sort(key=lambda f: (f['oracle_lossy'], len(f['case']['ops']),
                               json.dumps(f['case'])))
    either_min = {}
    for e in either:
        either_min.setdefault(e['signature'], e)
    rng = random.Random(seed)
    rng.shuffle(samples)
    race = race_probe()
    notes = [
        "FakeRepo git-log order (creation index, newest first) is a valid "
        "children-before-parents order; _reset's verdict cannot depend on "
        "the order among incomparable commits (its 'feature' set only grows "
        "along parent links) and the two orders tried never differed: %d "
        "order_dependent failures (listing statistics: %s)." % (sum(
            n for s, n in sigs.items() if s.startswith('order_dependent')),
            dict(order_stats)),
        "either (not counted as failures): with commit dates running "
        "backwards git's default date-ordered log may print a parent before "
        "one of its children; _reset then meets an old source commit before "
        "its parent and refuses a harmless reset.  Probe 'skew' changed the "
        "verdict in %d cases: %s; minimal: %s" % (
            sum(either_sigs.values()), dict(either_sigs),
            json.dumps([{'case': e['case'], 'oracle_lossy': e['oracle_lossy'],
                         'got': e['got']}
                        for e in either_min.values()][:2])),
        "oracle reading choices: 'not the robot's' = author name != "
        "settings.robot; 'part of the current or a previous version of the "
        "source branch' = the fixpoint F above, started from ALL commits "
        "reachable from the source and not from the destination (merge "
        "commits of the source included); a manual merge commit is never in "
        "F.  Destination commits not yet forward-ported (author 'other') "
        "enter F through the closure, in the code as well.",
        "race probe (outside the quantifier, not a failure): a branch pushed "
        "by somebody else between the clone and `git push --all --atomic "
        "--prune` -> %s" % json.dumps(race),
        "scope detail: %d inapplicable sequences skipped (an operation that "
        "cannot apply, e.g. a merge with nothing to merge, reset below the "
        "first source commit, w/ operation on a missing branch); %d "
        "histories were lossy per oracle." % (tot['skipped'], tot['lossy']),
        "child PR stub follows the hosts' get_pull_requests(src_branch=[..], "
        "status='OPEN') contract; it also holds an already DECLINED child "
        "of w/5.1, child PRs 71/72 of PR 7, 31 of bugfix/PRJ-1-x2 and the "
        "three parent PRs: none of them may be declined or asked about.",
    ]
    return {
        'name': NAME,
        'scope': ("cascade development/4.3 -> 5.1 -> 10.0; PR 1 %s -> 4.3 "
                  "with w/5.1 and w/10.0 built as Bert-E does (initial "
                  "states: both / only w/5.1 / none); PR 7 %s with w/ "
                  "branches and q/<v> + q/w/7/<v>/... queue branches, PR 3 "
                  "%s (name extends PR 1's) with w/5.1, user/someone; every "
                  "applicable sequence of length 0..%d over %d operations "
                  "%s; + %d directed histories; + %d seeded random sequences "
                  "of length %d..%d over the alphabet extended with "
                  "src_merge_dst; each history: real _reset(force=False) and "
                  "_reset(force=True) from the same remote snapshot under 2 "
                  "git-log orders (+1 clock-skew probe, +1 rebuild check)"
                  % (SRC, SRC2, SRC3, maxlen, len(ALPHABET),
                     [' '.join(o) for o in ALPHABET], len(DIRECTED),
                     n_random, lo, hi)),
        'cases': tot['cases'],
        'distinct_nontrivial': tot['nontrivial'],
        'rule': RULE,
        'notes': notes,
        'n_failures': sum(sigs.values()),
        'failures': [{'case': f['case'], 'clause': f['clause'],
                      'signature': f['signature'],
                      'mode': f.get('mode'), 'order': f.get('order'),
                      'expected': f['expected'], 'got': f['got']}
                     for f in picked],
        'failure_signatures': dict(sigs),
        'clause_counts': dict(clause_counts),
        'samples': samples[:5],
        'exhaustive': True,
        'wall_s': round(time.time() - t0, 2),
    }


def race_probe():
    """somebody pushes a new branch after Bert-E's clone, before its push."""
    repo = build_base('both')
    snap = repo.snapshot()

    def hook(r):
        r.set_remote('feature/PRJ-9-new', r.remote[dev('10.0')])

    got = run_real(repo, snap, True, 'newest', hook=hook)
    return {'raised': got['raised'],
            'concurrent_branch_survives':
                'feature/PRJ-9-new' in repo.remote,
            'trace': got['trace']}


def replay(case: dict) -> dict:
    """Re-run one history ({'init':..., 'ops': [...]}, or a whole failure
    record).  Reports the first disagreement (all of them under 'all')."""
    want = None
    if 'case' in case and 'ops' not in case:
        want = (case.get('clause'), case.get('signature'))
        case = case['case']
    res = evaluate({'init': case.get('init', 'both'),
                    'ops': [list(o) for o in case['ops']]})
    if res is None:
        return {'ok': False, 'clause': 'inapplicable', 'expected': None,
                'got': 'operation sequence not applicable'}
    fails = res['failures']
    if want and want[0]:
        sel = [f for f in fails if f['clause'] == want[0] and
               (want[1] is None or f['signature'] == want[1])]
        fails = sel or fails
    if not fails:
        return {'ok': True, 'clause': None,
                'expected': {'lossy': res['exp']['lossy'],
                             'own': res['exp']['own'],
                             'declined': res['exp']['declined']},
                'got': res['summary'], 'either': res['either']}
    f = fails[0]
    return {'ok': False, 'clause': f['clause'], 'signature': f['signature'],
            'expected': f['expected'], 'got': f['got'],
            'oracle': res['exp'],
            'all': [{'clause': g['clause'], 'signature': g['signature'],
                     'mode': g.get('mode')} for g in res['failures']]}


if __name__ == '__main__':
    _tier = sys.argv[1] if len(sys.argv) > 1 else 'quick'
    _seed = int(sys.argv[2]) if len(sys.argv) > 2 else 0
    print(json.dumps(run(_tier, _seed), indent=1, default=str))
