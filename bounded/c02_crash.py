"""Bounded stand-in for property C02 (crash / partial-push atomicity and
recovery) on the REAL bert-e system: real git repositories + the in-memory
mock git host, driven through ``harness.system.World``.

    python bounded/c02_crash.py [quick|thorough] [seed]
    python bounded/c02_crash.py replay '<json case>'
    python bounded/c02_crash.py selftest      # the clauses can fail

A *history* is ``{'world': {...}, 'events': [[kind, args...], ...]}`` (same
vocabulary as bounded/system_histories.py).  Every Bert-E evaluation of a
history is a *job*, identified by ``(event index, sub index)`` (sub > 0 = the
follow-up pull request jobs of rebuild_queues).  A *case* is a history plus
ONE fault in ONE job::

    {'world':..., 'events':..., 'fault': {'event': 1, 'sub': 0,
        'mode': 'die', 'k': 3}}                       # crash at boundary 3
    {... 'fault': {'event': 2, 'sub': 0, 'mode': 'reject', 'op': 1,
        'ref': 'development/5.1', 'persist': True}}   # remote refuses a ref

See RULE / SCOPE / ``run`` / ``replay``.

The code under test is whatever ``bert_e`` package comes first on sys.path
(/repo by default; ``PYTHONPATH=<snapshot>:/verif:/repo`` measures a frozen
copy while other processes edit /repo); the report says which one and warns
when /repo changed during the run.  ``C02_REAL_FORK=1`` keeps the plain
fork()-per-git-command of simplecmd (slower, see ``_CheapSpawn``).
"""
import sys

sys.dont_write_bytecode = True
for _p in ('/repo', '/verif'):
    if _p not in sys.path:
        sys.path.insert(0, _p)

import collections  # noqa: E402
import json  # noqa: E402
import multiprocessing  # noqa: E402
import os  # noqa: E402
import random  # noqa: E402
import re  # noqa: E402
import shlex  # noqa: E402
import shutil  # noqa: E402
import stat  # noqa: E402
import tempfile  # noqa: E402
import time  # noqa: E402
import traceback  # noqa: E402
import warnings  # noqa: E402

warnings.filterwarnings('ignore')

import requests  # noqa: E402
import subprocess as _subprocess  # noqa: E402

from harness import system as hs  # noqa: E402
from harness.system import World  # noqa: E402
from bounded.system_histories import (  # noqa: E402
    merge_pairs, targets_of, random_history)
from bert_e.git_host import mock as mock_host  # noqa: E402
from bert_e.lib import git as berte_git  # noqa: E402
from bert_e.lib import retry as berte_retry  # noqa: E402
from bert_e.lib import simplecmd as berte_simplecmd  # noqa: E402
from bert_e.lib.simplecmd import CommandError  # noqa: E402

NAME = 'c02_crash'
CLAUSES = ('all_or_none', 'inclusion', 'recovery_same_trees')
OUT_OF_ORDER = ('QueueOutOfOrder', 'IncoherentQueues')

RULE = (
    "For every job (Bert-E evaluation) J of every explored history H: first "
    "H is run un-faulted on a fresh World with a counting injector: the "
    "remote-mutating operations of J are, in order, every `git push` command "
    "the robot executes (hook on bert_e.lib.git.cmd, i.e. under "
    "Repository.cmd/push/push_all) and every mutating call on the mock host "
    "(Repository.create_pull_request / set_build_status, PullRequest"
    "Controller.add_comment / decline / approve..., CommentController.delete)"
    "; for each push the set of remote refs it changed is recorded. Then, "
    "each on a NEW World replaying the same deterministic prefix of H: "
    "(die,k) for k in 0..N: operations 0..k-1 of J take effect, operation k "
    "and every later one raises a BaseException (the process dies; nothing "
    "in bert-e can catch it); (reject,p,r): when push number p starts, an "
    "`update` hook refusing exactly ref r is installed in the bare remote "
    "until the end of J (persist) or for that single command (once); the "
    "retry sleeps of bert_e.lib.retry are skipped (same attempts, no wait). "
    "Oracles, all observed on the REMOTE bare repository, right after the "
    "faulted job ('crash'), after recovery ('recovered') and at the end of "
    "the history ('final'): all_or_none: for every non-robot pull request of "
    "H and every tip its source branch ever had, the tip is an ancestor of "
    "ALL its target branches (dst and the later development branches) or of "
    "NONE; inclusion: for every consecutive pair of the merge paths (dev "
    "chain by version, stabilization/x.y.z -> development/x.y) tip(a) is an "
    "ancestor of tip(b); recovery_same_trees: recovery = the same event is "
    "delivered again to a fresh Bert-E (World builds a new BertE and a new "
    "clone per evaluation); if it answers QueueOutOfOrder/IncoherentQueues "
    "the documented reset (admin job rebuild_queues + its follow-up pull "
    "request jobs) is run and the event delivered once more (for a build "
    "status event after a reset: the builds are reported again on the new "
    "queue tips); then rev^{tree} of every destination branch must equal "
    "the un-faulted run right after J ('recovered'), and, after the rest of "
    "H has been played (same reset rule for later jobs), at the end of H "
    "('final')."
)

SCOPE = (
    "quick: 6 curated histories (no-queue direct merge on a 3 branch "
    "cascade; queue: add_to_queue then handle_merge_queues; two pull "
    "requests queued and merged together; stabilization branch with and "
    "without queue; integration-branch creation step alone (BuildNotStarted)"
    " then merge), every job, boundaries 1..N, every ref of every multi-ref "
    "push refused until the end of the job. thorough: 21 curated histories "
    "(+ second pull request after a merge, skip_queue_when_not_needed "
    "direct merge with queues.delete(), rebuild_queues / delete_queues / "
    "force_merge_queues jobs, partial queue merges, new commits on a queued "
    "pull request, decline, 2 branch cascade) and seeded random histories of "
    "bounded/system_histories.py (up to 5 events, 115 histories in all; for "
    "the random ones one run per distinct faulted prefix), boundaries 0..N, "
    "every ref of every push refused (until the end of the job, and for a "
    "single attempt), plus the 'every later operation fails but the process "
    "survives' variant on the first two curated histories. Not covered: a "
    "death INSIDE a non-atomic multi-ref push other than 'all refs but one', "
    "a corrupted ~/.bert-e mirror cache, two faults in one history, "
    "conflicts, hotfix branches, real approvals (always bypassed), hosts "
    "other than the mock (its pull request state MERGED is computed from "
    "git: source tip reachable from the destination branch).")

DEV = 'development/'
D43, D51, D100 = DEV + '4.3', DEV + '5.1', DEV + '10.0'
STAB = 'stabilization/5.1.0'
OK, KO = 'SUCCESSFUL', 'FAILED'


class _CheapSpawn:
    """Stands for the ``subprocess`` module inside bert_e.lib.simplecmd:
    ``preexec_fn=os.setsid`` is passed as the equivalent
    ``start_new_session=True`` so that CPython may vfork/posix_spawn instead
    of fork()ing this (large) process for each of the ~300 git commands of
    an evaluation.  Same child, same session semantics; ``_do_cmd`` itself
    is the real one."""

    def __getattr__(self, name):
        return getattr(_subprocess, name)

    @staticmethod
    def Popen(command, **kwargs):
        if kwargs.get('preexec_fn') is os.setsid:
            kwargs.pop('preexec_fn')
            kwargs['start_new_session'] = True
        return _subprocess.Popen(command, **kwargs)


class Died(BaseException):
    """Bert-E's process is killed (BaseException: no `except Exception` of
    the code under test can swallow it)."""


# ----------------------------------------------------------------------- #
# fault injection (harness side only)
# ----------------------------------------------------------------------- #
def _title(body):
    for line in str(body).splitlines():
        line = line.strip().strip('#').strip()
        if line:
            return re.sub(r'[^A-Za-z ]', '', line)[:40].strip()
    return ''


def _ref_cat(name):
    if name.startswith('q/w/'):
        return 'q/w'
    if name.startswith('q/'):
        return 'q'
    if name.startswith('w/'):
        return 'w'
    if hs.DEST_RE.match(name):
        return 'dest'
    if name.startswith('refs/tags/'):
        return 'tag'
    return 'other'


def _push_desc(command):
    try:
        toks = shlex.split(command)
    except ValueError:
        toks = command.split()
    toks = toks[2:]
    flags = [t for t in toks if t.startswith('-')]
    names = [t for t in toks if not t.startswith('-') and t != 'origin']
    if '--all' in flags:
        return 'push_all' + ('_prune' if '--prune' in flags else '') + (
            '' if '--atomic' in flags else '_nonatomic')
    cats = sorted({('delete ' if n.startswith(':') else '') +
                   _ref_cat(n.split(':')[-1].replace('refs/heads/', ''))
                   for n in names})
    return 'push ' + '+'.join(cats)


_PUSH_RE = re.compile(r'^\s*git\s+push\b')

_HOST_OPS = [
    (mock_host.Repository, 'create_pull_request', 'create_pr'),
    (mock_host.Repository, 'set_build_status', 'status'),
    (mock_host.PullRequestController, 'add_comment', 'comment'),
    (mock_host.PullRequestController, 'decline', 'decline'),
    (mock_host.PullRequestController, 'approve', 'review'),
    (mock_host.PullRequestController, 'request_changes', 'review'),
    (mock_host.PullRequestController, 'dismiss', 'review'),
    (mock_host.PullRequestController, 'comment_review', 'review'),
    (mock_host.CommentController, 'delete', 'delete_comment'),
]


class Injector:
    """Counts / faults the remote-mutating operations executed while it is
    active (one Bert-E job)."""

    def __init__(self, world, plan=None):
        self.w = world
        self.plan = dict(plan or {'mode': 'count'})
        self.mode = self.plan['mode']
        self.ops = []
        self.fired_at = None          # index of the first faulted operation
        self._saved = []
        self._depth = 0
        self.hook = os.path.join(world.bare, 'hooks', 'update')
        self.hook_log = os.path.join(world.root, 'rejected.log')

    # -- the gate every mutating operation goes through -------------------
    def _gate(self, kind, desc):
        idx = len(self.ops)
        self.ops.append({'kind': kind, 'desc': desc})
        if self.mode in ('die', 'fail') and idx >= self.plan['k']:
            if self.fired_at is None:
                self.fired_at = idx
            self.ops[idx]['faulted'] = True
            if self.mode == 'die':
                raise Died('died before operation %d (%s)' % (idx, desc))
            if kind == 'push':
                raise CommandError('injected: push %d fails' % idx)
            raise requests.exceptions.ConnectionError(
                'injected: host call %d fails' % idx)
        return idx

    def _install_hook(self, ref):
        full = ref if ref.startswith('refs/') else 'refs/heads/' + ref
        os.makedirs(os.path.dirname(self.hook), exist_ok=True)
        with open(self.hook, 'w') as f:
            f.write('#!/bin/sh\nif [ "$1" = %s ]; then\n'
                    '  echo "$1" >> %s\n  echo protected >&2\n  exit 1\nfi\n'
                    'exit 0\n' % (shlex.quote(full),
                                  shlex.quote(self.hook_log)))
        os.chmod(self.hook, os.stat(self.hook).st_mode | stat.S_IXUSR)

    def _remove_hook(self):
        if os.path.exists(self.hook):
            os.unlink(self.hook)

    def rejections(self):
        if not os.path.exists(self.hook_log):
            return 0
        with open(self.hook_log) as f:
            return len(f.read().split())

    # -- patches ----------------------------------------------------------
    def __enter__(self):
        inj = self
        orig_cmd = berte_git.cmd

        def cmd(command, *args, **kwargs):
            if not _PUSH_RE.match(command):
                return orig_cmd(command, *args, **kwargs)
            idx = inj._gate('push', _push_desc(command))
            op = inj.ops[idx]
            if inj.mode == 'count':
                before = inj.w.remote_refs()
                try:
                    return orig_cmd(command, *args, **kwargs)
                finally:
                    after = inj.w.remote_refs()
                    op['refs'] = sorted(
                        n for n in set(before) | set(after)
                        if before.get(n) != after.get(n))
                    op['atomic'] = '--atomic' in command
            if inj.mode == 'reject' and idx == inj.plan['op']:
                inj._install_hook(inj.plan['ref'])
                inj.fired_at = idx
                try:
                    return orig_cmd(command, *args, **kwargs)
                finally:
                    if not inj.plan.get('persist', True):
                        inj._remove_hook()
            return orig_cmd(command, *args, **kwargs)

        self._saved.append((berte_git, 'cmd', orig_cmd))
        berte_git.cmd = cmd

        def wrap(cls, name, kind):
            orig = getattr(cls, name)

            def method(self_, *a, **kw):
                if inj._depth:                 # nested host call: one op
                    return orig(self_, *a, **kw)
                desc = kind
                if kind == 'comment':
                    desc = 'comment %s' % _title(a[0] if a else
                                                 kw.get('msg', ''))
                inj._gate(kind, desc)
                inj._depth += 1
                try:
                    return orig(self_, *a, **kw)
                finally:
                    inj._depth -= 1
            self._saved.append((cls, name, orig))
            setattr(cls, name, method)

        for cls, name, kind in _HOST_OPS:
            wrap(cls, name, kind)
        return self

    def __exit__(self, *exc):
        for obj, name, orig in reversed(self._saved):
            setattr(obj, name, orig)
        self._saved = []
        self._remove_hook()
        return False


# ----------------------------------------------------------------------- #
# running one history (un-faulted baseline, or with one fault)
# ----------------------------------------------------------------------- #
def _job_alias(kind, outcome, ops):
    if kind == 'commit' and outcome == 'Merged':
        return 'queue_merge'
    if kind == 'pr' and outcome == 'Queued':
        return 'queue_add'
    if kind == 'pr' and outcome == 'SuccessMessage':
        return 'direct_merge'
    if kind == 'pr' and any(o['desc'] == 'create_pr' for o in ops):
        return 'integration_create->%s' % outcome
    return '%s->%s' % (kind, outcome)


class Hist:
    def __init__(self, history, fault=None, baseline=None):
        self.history = history
        self.fault = fault
        self.baseline = baseline
        wcfg = dict(history.get('world') or {})
        self.opt_name = wcfg.get('options', 'bypass_all')
        options = (list(hs.BYPASS_ALL) if self.opt_name == 'bypass_all'
                   else hs.bypass_all_but(['bypass_build_status']))
        self.use_queue = wcfg.get('use_queue', True)
        self._saved_sleep = berte_retry.sleep
        berte_retry.sleep = lambda seconds: None
        self._saved_subprocess = berte_simplecmd.subprocess
        if os.environ.get('C02_REAL_FORK') != '1':
            berte_simplecmd.subprocess = _CheapSpawn()
        self.w = World(cascade=tuple(wcfg.get('cascade',
                                              ('4.3', '5.1', '10.0'))),
                       stabilization=wcfg.get('stabilization', False),
                       use_queue=self.use_queue, options=options,
                       settings_extra=wcfg.get('settings_extra', ''))
        self.prs = []            # ordinal -> {'id','src','dst','tips'}
        self.jobs = []           # baseline records
        self.steps = []
        self.ei = -1
        self.sub = 0
        self.after_fault = False
        self.result = None       # outcome of the faulted job + oracles
        self.counts = collections.Counter()
        self.violations = []
        self.late_resets = []
        self.observations = []
        self.last_trees = None
        self.twice = None        # trees of the un-faulted double delivery

    def close(self):
        berte_retry.sleep = self._saved_sleep
        berte_simplecmd.subprocess = self._saved_subprocess
        self.w.close()

    # ---- observations of the remote -------------------------------------
    def trees(self, refs=None):
        w = self.w
        refs = w.remote_refs() if refs is None else refs
        return {d: w._git('rev-parse', refs[d] + '^{tree}').stdout.strip()
                for d in w.destination_branches(refs)}

    def presence(self, refs):
        """{ordinal: {tip: {target: bool}}}"""
        out = {}
        for k, P in enumerate(self.prs):
            targets = [t for t in targets_of(P['dst'], refs) if t in refs]
            out[k] = {tip: {t: self.w.is_ancestor(tip, refs[t])
                            for t in targets} for tip in P['tips']}
        return out

    def picture(self, refs=None):
        """Compact description of the remote for reports."""
        refs = self.w.remote_refs() if refs is None else refs
        pres = self.presence(refs)
        pic = {'dest': {}, 'other_refs': sorted(
            n for n in refs if not hs.DEST_RE.match(n) and
            not n.startswith('user/'))}
        for d in self.w.destination_branches(refs):
            has = sorted('PR%d' % k for k, tips in pres.items()
                         if any(t.get(d) for t in tips.values()))
            pic['dest'][d] = '%s %s' % (refs[d][:8], ','.join(has) or '-')
        pic['prs'] = {p['id']: p['state'] for p in self.w.pull_requests()}
        return pic

    def oracles(self, phase, sig_tail, want_trees=None, twice_trees=None,
                reference=False):
        """all_or_none + inclusion (+ recovery_same_trees when
        ``want_trees``) on the current remote.  ``twice_trees``: the trees
        of the UN-faulted job followed by one more delivery of the same
        event; a mismatch with ``want_trees`` that is exactly this state is
        caused by the second delivery, not by the interruption, and is
        recorded as an observation (``reference``: this run IS that
        un-interrupted double delivery)."""
        w = self.w
        refs = w.remote_refs()
        out = []
        for k, tips in self.presence(refs).items():
            for tip, flags in tips.items():
                if len(flags) < 2:
                    continue
                self.counts['all_or_none'] += 1
                if any(flags.values()) and not all(flags.values()):
                    out.append(('all_or_none', {
                        'pr_ordinal': k, 'pr': self.prs[k]['id'],
                        'source_tip': tip[:8], 'on_target': flags}))
        for a, b in merge_pairs(refs):
            self.counts['inclusion'] += 1
            if not w.is_ancestor(refs[a], refs[b]):
                out.append(('inclusion', {
                    'pair': [a, b], a: refs[a][:8], b: refs[b][:8]}))
        if want_trees is not None:
            got = self.trees(refs)
            self.last_trees = got
            if got != want_trees and (reference or got == twice_trees):
                self.observations.append(
                    '%s: second delivery of the event alone changes the '
                    'destination trees (un-interrupted run too)' % phase)
                want_trees = got
            for d in sorted(set(got) | set(want_trees)):
                self.counts['recovery_same_trees'] += 1
                if got.get(d) != want_trees.get(d):
                    out.append(('recovery_same_trees', {
                        'branch': d, 'tree': (got.get(d) or '')[:8],
                        'unfaulted_tree': (want_trees.get(d) or '')[:8]}))
        seen = set()
        for clause, detail in out:
            tag = clause if phase == 'crash' else '%s@%s' % (clause, phase)
            signature = '%s:%s' % (tag, sig_tail)
            if signature in seen:
                continue
            seen.add(signature)
            detail = dict(detail, phase=phase, remote=self.picture(refs))
            self.violations.append({'clause': clause, 'signature': signature,
                                    'detail': detail})
        return [c for c, _ in out]

    # ---- the documented queue reset -------------------------------------
    def reset_queues(self, sig_tail):
        """API POST /queues (rebuild_queues + the pull request jobs it
        creates).  When that job itself fails: recorded as a violation of
        the recovery clause, then the last resort of the documentation is
        applied: DELETE /queues (delete_queues) and a manual evaluation of
        every open pull request."""
        w = self.w
        rec = {'reset': w.admin_job('rebuild_queues', drain=True),
               'reset_followups': list(w.last_followups)}
        if rec['reset'] != 'JobSuccess':
            rec['reset_error'] = str(w.last_exception)[:200]
            self.counts['recovery_same_trees'] += 1
            self.violations.append({
                'clause': 'recovery_same_trees',
                'signature': 'recovery_same_trees@reset_failed:%s' % sig_tail,
                'detail': {'phase': 'reset', 'rebuild_queues': rec['reset'],
                           'error': rec['reset_error'],
                           'remote': self.picture()}})
            rec['fallback_delete_queues'] = w.admin_job('delete_queues')
            rec['fallback_evaluations'] = [
                (p['id'], w.evaluate_pr(p['id']))
                for p in w.pull_requests()
                if p['author'] != hs.ROBOT and p['state'] == 'OPEN']
        return rec

    # ---- jobs -----------------------------------------------------------
    def _baseline_job(self):
        for rec in (self.baseline or {}).get('jobs', ()):
            if (rec['event'], rec['sub']) == (self.ei, self.sub):
                return rec
        return None

    def job(self, kind, label, deliver):
        """``deliver(after_reset) -> outcome`` delivers the event to a fresh
        Bert-E."""
        sub = self.sub
        f = self.fault
        try:
            if f is None:
                with Injector(self.w) as inj:
                    out = deliver(False)
                self.jobs.append({
                    'event': self.ei, 'sub': sub, 'kind': kind,
                    'label': label, 'outcome': out, 'ops': inj.ops,
                    'crashed': bool(self.w.is_crash()),
                    'trees': self.trees()})
                return out
            if (self.ei, sub) == (f['event'], f['sub']) and \
                    not self.after_fault:
                return self.faulted_job(kind, label, deliver)
            out = deliver(False)
            if self.after_fault and out in OUT_OF_ORDER:
                # the documented reset, whenever Bert-E asks for it
                rec = self.reset_queues(self.sig_tail)
                out2 = deliver(True)
                self.late_resets.append(dict(rec, job=label, first=out,
                                             then=out2))
                out = out2
            return out
        finally:
            self.sub = sub + 1

    def faulted_job(self, kind, label, deliver):
        w, f = self.w, self.fault
        base = self._baseline_job()
        if base is None:
            raise RuntimeError('job (%d,%d) not in the baseline' % (
                f['event'], f['sub']))
        ops = base['ops']
        alias = _job_alias(base['kind'], base['outcome'], ops)
        if f['mode'] in ('die', 'fail'):
            k = f['k']
            where = ('before %s' % ops[0]['desc'] if k == 0 and ops
                     else 'after %s' % ops[k - 1]['desc'] if ops
                     else 'no-op job')
            if f['mode'] == 'fail':
                where = 'unreachable ' + where
        else:
            where = 'reject %s%s in %s' % (
                _ref_cat(f['ref']),
                '' if f.get('persist', True) else ' once',
                ops[f['op']]['desc'])
        sig_tail = '%s:%s' % (alias, where)
        refs0 = w.remote_refs()
        plan = dict(f)
        inj = Injector(w, plan)
        with inj:
            try:
                out = deliver(False)
            except Died:
                out = 'Died'
            rejected = inj.rejections()
        refs1 = w.remote_refs()
        res = {
            'job': label, 'job_kind': alias, 'boundary': where,
            'unfaulted_outcome': base['outcome'],
            'unfaulted_ops': [o['desc'] for o in ops],
            'faulted_outcome': out,
            'faulted_error': (str(w.last_exception)[:160]
                              if w.is_crash() else None),
            'ops_done': [o['desc'] for o in inj.ops if not o.get('faulted')],
            'fault_fired': inj.fired_at is not None and (
                f['mode'] != 'reject' or rejected > 0),
            'refs_changed_by_faulted_job': sorted(
                n for n in set(refs0) | set(refs1)
                if refs0.get(n) != refs1.get(n)),
        }
        if f['mode'] in ('die', 'fail'):
            res['nontrivial'] = bool(res['fault_fired'] and
                                     0 < f['k'] < len(ops))
        else:
            res['nontrivial'] = bool(res['fault_fired'])
            res['rejections'] = rejected
        res['after_crash'] = self.picture(refs1)
        res['violated_at_crash'] = self.oracles('crash', sig_tail)

        # ---- recovery: same event, fresh Bert-E --------------------------
        self.after_fault = True
        rec = {'redelivery': deliver(False)}
        if w.is_crash():
            rec['redelivery_error'] = str(w.last_exception)[:160]
        self.sig_tail = sig_tail
        if rec['redelivery'] in OUT_OF_ORDER:
            rec.update(self.reset_queues(sig_tail))
            rec['redelivery_after_reset'] = deliver(True)
        res['recovery'] = rec
        res['needs_reset'] = 'reset' in rec
        reference = f['mode'] == 'die' and f['k'] >= len(ops)
        res['violated_after_recovery'] = self.oracles(
            'recovered', sig_tail, want_trees=base['trees'],
            twice_trees=self.twice, reference=reference)
        res['recovered_trees'] = self.last_trees
        res['reference'] = reference
        self.result = res
        return rec.get('redelivery_after_reset', rec['redelivery'])

    # ---- events ---------------------------------------------------------
    def pr(self, k):
        if isinstance(k, int) and 0 <= k < len(self.prs):
            return self.prs[k]
        return None

    def apply(self, event):
        kind, args = event[0], list(event[1:])
        w = self.w
        rec = {'event': list(event), 'outcomes': []}
        self.sub = 0

        def run(jkind, label, deliver):
            out = self.job(jkind, label, deliver)
            rec['outcomes'].append(out)
            return out

        if kind == 'create':
            dst = args[0]
            if dst not in w.remote_refs() or len(self.prs) >= 4:
                rec['skipped'] = True
            else:
                src = 'bugfix/TEST-%04d' % (len(self.prs) + 1)
                pid = w.create_pr(src, dst)
                self.prs.append({'id': pid, 'src': src, 'dst': dst,
                                 'tips': [w.remote_refs()[src]]})
        elif kind in ('eval', 'race_eval', 'eval_bypass'):
            P = self.pr(args[0])
            if not P:
                rec['skipped'] = True
            else:
                options = (list(hs.BYPASS_ALL) if kind == 'eval_bypass'
                           else None)
                run('pr', 'evaluate_pr(#%d)' % P['id'],
                    lambda again: w.evaluate_pr(P['id'], options))
        elif kind == 'build':
            P = self.pr(args[0])
            if not P:
                rec['skipped'] = True
            else:
                w.set_build(P['id'], args[1])
        elif kind in ('queue', 'race_queue'):
            state = args[0]
            P = self.pr(args[1]) if len(args) > 1 else None
            if len(args) > 1 and not P:
                rec['skipped'] = True
            else:
                def report():
                    w.set_queue_builds(state, P['id'] if P else None)
                    refs = w.remote_refs()
                    qs = sorted(
                        (n for n in refs if re.match(r'^q/[\d.]+$', n)),
                        key=lambda n: [int(x) for x in n[2:].split('.')])
                    return refs[qs[-1]] if qs else None
                sha = [report()]
                if not sha[0]:
                    rec['skipped'] = 'no queue'
                else:
                    def deliver(after_reset):
                        if after_reset:      # CI reports on the new tips
                            sha[0] = report() or sha[0]
                        return w.evaluate_commit(sha[0])
                    run('commit', 'evaluate_commit(q tip)', deliver)
        elif kind == 'push':
            P = self.pr(args[0])
            if not P or P['src'] not in w.remote_refs():
                rec['skipped'] = True
            else:
                P['tips'].append(w.push_commit(P['src']))
        elif kind == 'wait':
            P = self.pr(args[0])
            if not P:
                rec['skipped'] = True
            else:
                w.comment(P['id'], '@%s wait' % hs.ROBOT)
        elif kind == 'after':
            P, Q = self.pr(args[0]), self.pr(args[1])
            if not P or not Q or P is Q:
                rec['skipped'] = True
            else:
                w.comment(P['id'], '@%s after_pull_request=%d' % (
                    hs.ROBOT, Q['id']))
        elif kind == 'decline':
            P = self.pr(args[0])
            if not P:
                rec['skipped'] = True
            else:
                w.decline(P['id'])
        elif kind in ('rebuild', 'force_merge', 'delete_queues'):
            name = {'rebuild': 'rebuild_queues',
                    'force_merge': 'force_merge_queues',
                    'delete_queues': 'delete_queues'}[kind]
            run('job:' + name, 'admin_job(%s)' % name,
                lambda again: w.admin_job(name, drain=False))
            while w.pending_prs:
                pid = w.pending_prs.pop(0)
                run('pr', 'follow-up evaluate_pr(#%d)' % pid,
                    lambda again: w.evaluate_pr(pid))
        else:
            raise ValueError('unknown event %r' % (event,))
        self.steps.append(rec)

    def run(self):
        for i, event in enumerate(self.history['events']):
            self.ei = i
            self.apply(event)
        self.ei = len(self.history['events'])


def _hist_of(case):
    return {'world': case.get('world') or {}, 'events': case['events']}


def run_baseline(history):
    """Un-faulted run: per job the operations, outcome and trees."""
    t0 = time.time()
    out = {'history': history, 'jobs': [], 'final_trees': None,
           'error': None}
    h = None
    try:
        h = Hist(history)
        h.run()
        out['jobs'] = h.jobs
        out['final_trees'] = h.trees()
        out['steps'] = h.steps
        bad = h.oracles('baseline', 'unfaulted')
        if bad:
            out['error'] = 'un-faulted run violates %s' % bad
    except BaseException as err:
        out['error'] = '%s: %s\n%s' % (type(err).__name__, err,
                                      traceback.format_exc()[-1500:])
    finally:
        if h is not None:
            h.close()
    out['wall_s'] = round(time.time() - t0, 2)
    return out


def heal_probe(h, baseline):
    """Not an oracle: after a recovery that did NOT converge, does the
    manual per-pull-request `reset` command (what the BranchHistoryMismatch
    message asks the author to do) bring the destination branches to the
    un-faulted content?"""
    w = h.w
    steps = []
    try:
        for P in h.prs:
            state = [p['state'] for p in w.pull_requests()
                     if p['id'] == P['id']][0]
            if state != 'OPEN':
                continue
            w.comment(P['id'], '@%s reset' % hs.ROBOT)
            steps.append([P['id'], 'reset', w.evaluate_pr(P['id'])])
            out = w.evaluate_pr(P['id'])
            if out in ('BuildNotStarted', 'BuildInProgress'):
                w.set_build(P['id'], OK)
                out = w.evaluate_pr(P['id'])
            steps.append([P['id'], 'evaluate', out])
        if h.use_queue:
            w.set_queue_builds(OK)
            refs = w.remote_refs()
            qs = sorted((n for n in refs if re.match(r'^q/[\d.]+$', n)),
                        key=lambda n: [int(x) for x in n[2:].split('.')])
            if qs:
                steps.append(['queue', 'build ok',
                              w.evaluate_commit(refs[qs[-1]])])
        return {'steps': steps,
                'healed': h.trees() == baseline['final_trees']}
    except Exception as err:
        return {'steps': steps, 'healed': False,
                'error': '%s: %s' % (type(err).__name__, err)}


def reference_fault(baseline, fault):
    """The 'fault' that is no fault: the job runs un-interrupted and the
    event is delivered a second time (die at boundary N)."""
    for rec in baseline['jobs']:
        if (rec['event'], rec['sub']) == (fault['event'], fault['sub']):
            return {'event': rec['event'], 'sub': rec['sub'], 'mode': 'die',
                    'k': len(rec['ops'])}
    raise RuntimeError('job (%s,%s) not in the baseline' % (
        fault['event'], fault['sub']))


def run_case(case, baseline=None, twice=None):
    """One faulted run (+ its un-faulted baseline and the un-interrupted
    double delivery of the same job when not given)."""
    t0 = time.time()
    history = _hist_of(case)
    res = {'case': {'world': history['world'], 'events': history['events'],
                    'fault': case['fault']},
           'violations': [], 'counts': {}, 'error': None, 'result': None,
           'observations': []}
    if baseline is None:
        baseline = run_baseline(history)
    if baseline.get('error'):
        res['error'] = 'baseline: ' + baseline['error']
        return res
    h = None
    try:
        ref = reference_fault(baseline, case['fault'])
        if twice == 'defer':
            twice = None
        elif twice is None and ref != case['fault']:
            r2 = run_case(dict(history, fault=ref), baseline)
            if r2['error']:
                raise RuntimeError('reference run: ' + r2['error'])
            twice = r2['result']['recovered_trees']
        h = Hist(history, fault=case['fault'], baseline=baseline)
        h.twice = twice
        h.run()
        if h.result is None:
            raise RuntimeError('the faulted job was never reached')
        h.result['violated_at_end'] = h.oracles(
            'final', h.sig_tail, want_trees=baseline['final_trees'])
        if 'recovery_same_trees' in h.result['violated_at_end']:
            h.result['manual_heal_probe'] = heal_probe(h, baseline)
            for v in h.violations:
                if v['signature'].startswith('recovery_same_trees@final'):
                    v['detail']['manual_heal_probe'] = (
                        h.result['manual_heal_probe'])
        h.result['late_resets'] = h.late_resets
        h.result['steps'] = h.steps
        res['result'] = h.result
        for v in h.violations:
            v['detail'] = dict(
                v['detail'],
                job=h.result['job'], boundary=h.result['boundary'],
                faulted_outcome=h.result['faulted_outcome'],
                ops_done=h.result['ops_done'],
                recovery=h.result['recovery'])
            v['case'] = res['case']
        res['violations'] = h.violations
        res['observations'] = h.observations
        res['counts'] = dict(h.counts)
    except BaseException as err:          # harness error, not a violation
        res['error'] = '%s: %s\n%s' % (type(err).__name__, err,
                                      traceback.format_exc()[-1500:])
    finally:
        if h is not None:
            h.close()
    res['wall_s'] = round(time.time() - t0, 2)
    return res


# ----------------------------------------------------------------------- #
# histories and case enumeration
# ----------------------------------------------------------------------- #
A = {'options': 'bypass_all'}
B = {'options': 'need_build'}
AN = {'options': 'bypass_all', 'use_queue': False}
BN = {'options': 'need_build', 'use_queue': False}
AS = {'options': 'bypass_all', 'stabilization': True}
ASN = {'options': 'bypass_all', 'stabilization': True, 'use_queue': False}
A2 = {'options': 'bypass_all', 'cascade': ['4.3', '5.1']}
AN2 = {'options': 'bypass_all', 'cascade': ['4.3', '5.1'],
       'use_queue': False}
SKIP = {'options': 'bypass_all',
        'settings_extra': 'skip_queue_when_not_needed: true\n'}


def curated(tier):
    H = [
        # (i) no queue, direct merge (merge_integration_branches)
        (AN, [['create', D43], ['eval', 0]]),
        # (ii) queue: add_to_queue then handle_merge_queues
        (A, [['create', D43], ['eval', 0], ['queue', OK]]),
        # (iii) two pull requests queued, merged together
        (A, [['create', D43], ['create', D51], ['eval', 0], ['eval', 1],
             ['queue', OK]]),
        # (iv) stabilization branch, queue and no queue
        (AS, [['create', STAB], ['eval', 0], ['queue', OK]]),
        (ASN, [['create', STAB], ['eval', 0]]),
        # (v) integration creation step alone, then merge / queue
        (BN, [['create', D51], ['eval', 0], ['build', 0, OK], ['eval', 0]]),
    ]
    if tier != 'quick':
        H += [
            (B, [['create', D43], ['eval', 0], ['build', 0, OK], ['eval', 0],
                 ['queue', OK]]),
            # a second pull request after the first one went through
            (A, [['create', D43], ['eval', 0], ['queue', OK],
                 ['create', D43], ['eval', 1], ['queue', OK]]),
            (AN, [['create', D43], ['create', D51], ['eval', 0],
                  ['eval', 1]]),
            # direct merge inside a queue world (queues.delete() path)
            (SKIP, [['create', D43], ['create', D43], ['eval', 0],
                    ['eval', 1], ['queue', OK], ['create', D43],
                    ['eval', 2]]),
            # admin jobs
            (A, [['create', D43], ['eval', 0], ['rebuild'], ['queue', OK]]),
            (A, [['create', D43], ['create', D51], ['eval', 0], ['eval', 1],
                 ['rebuild'], ['queue', OK]]),
            (A, [['create', D43], ['eval', 0], ['delete_queues'],
                 ['eval', 0], ['queue', OK]]),
            (A, [['create', D43], ['eval', 0], ['force_merge']]),
            # partial queue merges
            (A, [['create', D43], ['create', D51], ['eval', 0], ['eval', 1],
                 ['queue', OK, 0], ['queue', OK]]),
            (A, [['create', D43], ['create', D51], ['eval', 0], ['eval', 1],
                 ['queue', KO, 1], ['queue', OK]]),
            # new commits, decline
            (A, [['create', D43], ['eval', 0], ['push', 0], ['queue', OK],
                 ['eval', 0], ['queue', OK]]),
            (A, [['create', D43], ['eval', 0], ['decline', 0], ['eval', 0]]),
            (AS, [['create', D43], ['create', STAB], ['eval', 0],
                  ['eval', 1], ['queue', OK]]),
            (A2, [['create', D43], ['eval', 0], ['queue', OK]]),
            (AN2, [['create', D43], ['eval', 0]]),
        ]
    return [{'world': dict(wd), 'events': [list(e) for e in ev]}
            for wd, ev in H]


def histories(tier, seed):
    out = curated(tier)
    if tier == 'quick':
        return out
    seen = {json.dumps(h, sort_keys=True) for h in out}
    i = 0
    while len(out) < 115 and i < 5000:
        rng = random.Random('%s:%s:%d' % (NAME, seed, i))
        i += 1
        h = random_history(rng, 5, 'thorough')
        h['events'] = [[{'race_eval': 'eval', 'race_queue': 'queue'}.get(
            e[0], e[0])] + list(e[1:]) for e in h['events']]
        key = json.dumps(h, sort_keys=True)
        if key in seen:
            continue
        seen.add(key)
        out.append(h)
    return out


def enumerate_cases(baseline, tier, fail_mode=False):
    """All faulted cases of one history, from its un-faulted run.
    ``fail_mode``: also the variant where the process survives and every
    operation from k on fails with the error the real code would see
    (CommandError / requests ConnectionError): same remote prefix, other
    control flow."""
    history = baseline['history']
    cases = []
    for rec in baseline['jobs']:
        ops = rec['ops']
        n = len(ops)
        if not n:
            continue
        where = {'event': rec['event'], 'sub': rec['sub']}
        # quick: boundary 0 (nothing happened yet) and the refusal of the
        # only ref of a push (same remote as dying before that push) are
        # left to the thorough tier
        for k in range(1 if tier == 'quick' else 0, n + 1):
            cases.append(dict(history, fault=dict(where, mode='die', k=k)))
            if fail_mode and k < n:
                cases.append(dict(history,
                                  fault=dict(where, mode='fail', k=k)))
        for idx, op in enumerate(ops):
            if op['kind'] != 'push':
                continue
            if tier == 'quick' and len(op.get('refs', ())) < 2:
                continue
            for ref in op.get('refs', ()):
                cases.append(dict(history, fault=dict(
                    where, mode='reject', op=idx, ref=ref, persist=True)))
                if tier != 'quick' and len(op['refs']) > 1:
                    cases.append(dict(history, fault=dict(
                        where, mode='reject', op=idx, ref=ref,
                        persist=False)))
    return cases


def _prefix_key(case):
    f = case['fault']
    return json.dumps([case.get('world'), case['events'][:f['event'] + 1],
                       f], sort_keys=True)


def _cost(case, baseline):
    return len(case['events']) + 2 * len(baseline['jobs'])


# ----------------------------------------------------------------------- #
# entry points
# ----------------------------------------------------------------------- #
def _repo_state():
    """HEAD and uncommitted changes of the code under test (another
    process editing /repo during a run would change what is measured)."""
    import subprocess

    def git(*args):
        return subprocess.run(('git', '-C', '/repo') + args,
                              stdout=subprocess.PIPE,
                              stderr=subprocess.DEVNULL,
                              universal_newlines=True).stdout.strip()
    import bert_e
    return {'bert_e_imported_from': os.path.dirname(bert_e.__file__),
            'head': git('rev-parse', '--short', 'HEAD'),
            'dirty': git('status', '--short').splitlines()}


class _Contained:
    """Every World of this run lives under one mkdtemp root."""

    def __enter__(self):
        self.saved = tempfile.tempdir, os.environ.get('TMPDIR')
        self.root = tempfile.mkdtemp(prefix='c02crash_')
        tempfile.tempdir = self.root
        os.environ['TMPDIR'] = self.root
        return self

    def __exit__(self, *exc):
        tempfile.tempdir = self.saved[0]
        if self.saved[1] is None:
            os.environ.pop('TMPDIR', None)
        else:
            os.environ['TMPDIR'] = self.saved[1]
        shutil.rmtree(self.root, ignore_errors=True)


def _case_task(args):
    case, baseline, twice = args
    return run_case(case, baseline, twice)


def _size(case):
    return (len(case['events']), json.dumps(case['fault'], sort_keys=True))


def _explore(cases_hist, tier, jobs, deadline, mutate=None):
    """baselines -> cases -> results (shared by run and selftest)."""
    notes = []
    results = []
    baselines = []
    ctx = multiprocessing.get_context('fork')
    pool = ctx.Pool(max(1, jobs), initializer=mutate)
    n_cases = 0
    unfinished = 0
    try:
        handles = [pool.apply_async(run_baseline, (h,)) for h in cases_hist]
        for h in handles:
            try:
                baselines.append(h.get(timeout=max(1.0,
                                                   deadline - time.time())))
            except multiprocessing.TimeoutError:
                unfinished += 1
        todo = []
        seen = set()
        for n, b in enumerate(baselines):
            if b['error']:
                notes.append('history skipped, baseline error: %s %s' % (
                    json.dumps(b['history']), b['error'][:300]))
                continue
            for case in enumerate_cases(b, tier,
                                        tier != 'quick' and n < 2):
                if tier != 'quick' and n >= len(curated(tier)):
                    key = _prefix_key(case)   # random histories: one case
                    if key in seen:           # per distinct faulted prefix
                        continue
                    seen.add(key)
                todo.append((n, case, b))
        n_cases = len(todo)
        # curated first, long cases first inside
        order = sorted(range(len(todo)), key=lambda i: (
            todo[i][0] >= len(curated(tier)), -_cost(todo[i][1],
                                                      todo[i][2])))

        # the reference runs (un-interrupted double delivery, die at k=N)
        # are ordinary cases; the 'recovered' mismatches they explain are
        # re-classified in _report (no barrier between the two kinds)
        pending = [pool.apply_async(
            _case_task, ((todo[i][1], todo[i][2], 'defer'),)) for i in order]
        for handle in pending:
            try:
                results.append(handle.get(
                    timeout=max(0.05, deadline - time.time())))
            except multiprocessing.TimeoutError:
                unfinished += 1
    finally:
        pool.terminate()
        pool.join()
    return baselines, results, n_cases, unfinished, notes


_PR_ARGS = {'eval': [1], 'race_eval': [1], 'eval_bypass': [1], 'build': [1],
            'push': [1], 'wait': [1], 'decline': [1], 'after': [1, 2],
            'queue': [2], 'race_queue': [2]}


def _smaller(case):
    """Cases with one event less (never the faulted one; a 'create' only
    when no other event refers to its pull request)."""
    events, fe = case['events'], case['fault']['event']
    out = []
    for i in reversed(range(len(events))):
        if i == fe:
            continue
        rest = [list(e) for j, e in enumerate(events) if j != i]
        if events[i][0] == 'create':
            k = sum(1 for e in events[:i] if e[0] == 'create')
            used = False
            for e in rest:
                for pos in _PR_ARGS.get(e[0], ()):
                    if pos < len(e) and isinstance(e[pos], int):
                        if e[pos] == k:
                            used = True
                        elif e[pos] > k:
                            e[pos] -= 1
            if used:
                continue
        out.append({'world': case['world'], 'events': rest,
                    'fault': dict(case['fault'],
                                  event=fe - (1 if i < fe else 0))})
    return out


def _shrink_task(args):
    case, signature = args
    res = run_case(case)
    for v in res['violations']:
        if v['signature'] == signature:
            return v
    return None


def _shrink(pool, violations, deadline):
    """Greedy one-event-at-a-time minimisation of the witness of every
    signature (all candidates of a round in parallel)."""
    best = {v['signature']: v for v in violations}
    active = set(best)
    while active and time.time() < deadline - 20:
        handles = []
        for sig in sorted(active):
            for cand in _smaller(best[sig]['case']):
                handles.append((sig, pool.apply_async(
                    _shrink_task, ((cand, sig),))))
        progressed = set()
        for sig, handle in handles:
            try:
                v = handle.get(timeout=max(0.05, deadline - time.time()))
            except multiprocessing.TimeoutError:
                progressed.add(sig)       # unknown: not proven minimal
                continue
            if v is not None and sig not in progressed:
                progressed.add(sig)
                best[sig] = dict(v, count=best[sig].get('count', 1))
        for sig in active - progressed:
            best[sig]['minimal'] = True
        active = progressed if time.time() < deadline - 20 else set()
    return [dict(best[v['signature']],
                 minimal=best[v['signature']].get('minimal', False))
            for v in violations]


def _report(tier, baselines, results, n_cases, unfinished, notes, t0):
    per_clause = {c: {'checks': 0, 'violating_runs': 0} for c in CLAUSES}
    by_sig = {}
    errors = []
    outcomes = collections.Counter()
    resets = collections.Counter()
    late = collections.Counter()
    observations = collections.Counter()
    fired = nontrivial = 0
    modes = collections.Counter()
    def jobkey(res):
        c = res['case']
        return json.dumps([c['world'], c['events'], c['fault']['event'],
                           c['fault']['sub']], sort_keys=True)

    twice = {}
    for res in results:
        r = res['result']
        if r and r.get('reference'):
            twice[jobkey(res)] = r['recovered_trees']
    for res in results:
        # deferred classification: a 'recovered' mismatch equal to the
        # un-interrupted double delivery is not caused by the interruption
        r = res['result']
        if not r or r.get('reference'):
            continue
        if r['recovered_trees'] == twice.get(jobkey(res)):
            keep = [v for v in res['violations'] if not v['signature']
                    .startswith('recovery_same_trees@recovered:')]
            if len(keep) != len(res['violations']):
                res['violations'] = keep
                res['observations'] = list(res['observations']) + [
                    'recovered: second delivery of the event alone changes '
                    'the destination trees (un-interrupted run too)']
    for res in results:
        if res['error']:
            errors.append({'case': res['case'], 'error': res['error']})
            continue
        r = res['result']
        modes[res['case']['fault']['mode']] += 1
        fired += bool(r['fault_fired'])
        nontrivial += bool(r['nontrivial'])
        outcomes['%s / redelivery %s' % (
            r['faulted_outcome'], r['recovery']['redelivery'])] += 1
        if r['needs_reset']:
            resets['%s:%s' % (r['job_kind'], r['boundary'])] += 1
        for o in res.get('observations', ()):
            observations['%s [%s]' % (o, r['job_kind'])] += 1
        for lr in r['late_resets']:
            late['%s:%s -> later %s' % (r['job_kind'], r['boundary'],
                                        lr['first'])] += 1
        for c, n in res['counts'].items():
            per_clause[c]['checks'] += n
        for c in {v['clause'] for v in res['violations']}:
            per_clause[c]['violating_runs'] += 1
        for v in res['violations']:
            cur = by_sig.get(v['signature'])
            if cur is None:
                by_sig[v['signature']] = dict(v, count=1)
            else:
                cur['count'] += 1
                if _size(v['case']) < _size(cur['case']):
                    cnt = cur['count']
                    by_sig[v['signature']] = dict(v, count=cnt)
    violations = [by_sig[s] for s in sorted(by_sig)]
    if errors:
        notes.append('%d faulted runs ended with a HARNESS error (not '
                     'violations); first: %s' % (
                         len(errors), json.dumps(errors[0])[:700]))
    if resets:
        notes.append('recoveries that needed the manual queue reset '
                     '(rebuild_queues) right at re-delivery: ' + ', '.join(
                         '%s x%d' % kv for kv in sorted(resets.items())))
    if late:
        notes.append('queue reported out of order only by a LATER job: ' +
                     ', '.join('%s x%d' % kv for kv in sorted(late.items())))
    if observations:
        notes.append('observations (not violations): ' + ', '.join(
            '%s x%d' % kv for kv in sorted(observations.items())))
    notes.append('faulted outcome / re-delivery outcome: ' + ', '.join(
        '%s x%d' % kv for kv in outcomes.most_common()))
    return {
        'name': NAME,
        'tier': tier,
        'rule': RULE,
        'scope': SCOPE,
        'histories': len(baselines),
        'jobs': sum(len(b['jobs']) for b in baselines),
        'jobs_mutating_remote': sum(1 for b in baselines for j in b['jobs']
                                    if j['ops']),
        'enumerated_cases': n_cases,
        'cases': len(results) - len(errors),
        'by_mode': dict(modes),
        'fault_fired': fired,
        'distinct_nontrivial': nontrivial,
        'per_clause': per_clause,
        'violations': violations,
        'n_violation_signatures': len(violations),
        'truncated': ('%d of %d runs not finished within the budget' % (
            unfinished, n_cases) if unfinished else False),
        'notes': notes,
        'exhaustive': False,
        'wall': round(time.time() - t0, 1),
    }


def run(tier: str = 'quick', seed: int = 0, jobs: int = 16) -> dict:
    """Explore every (job, boundary) and (job, push, ref) fault of the
    histories of ``tier`` with ``jobs`` worker processes."""
    t0 = time.time()
    budget = 92 if tier == 'quick' else 1440
    state0 = _repo_state()
    with _Contained():
        baselines, results, n_cases, unfinished, notes = _explore(
            histories(tier, seed), tier, jobs, t0 + budget - (
                0 if tier == 'quick' else 120))
        rep = _report(tier, baselines, results, n_cases, unfinished, notes,
                      t0)
        if rep['violations']:
            pool = multiprocessing.get_context('fork').Pool(max(1, jobs))
            try:
                rep['violations'] = _shrink(pool, rep['violations'],
                                            t0 + budget)
            finally:
                pool.terminate()
                pool.join()
    rep['code_under_test'] = {'at_start': state0, 'at_end': _repo_state()}
    if (state0['bert_e_imported_from'].startswith('/repo/') or
            state0['bert_e_imported_from'] == '/repo/bert_e') and (
            state0['dirty'] or rep['code_under_test']['at_end'] != state0):
        rep['notes'].insert(0, 'WARNING: /repo had uncommitted changes or '
                            'changed during the run: %s' % json.dumps(
                                rep['code_under_test']))
    rep['wall'] = round(time.time() - t0, 1)
    return rep


def replay(case: dict) -> dict:
    """Re-run one faulted case (or a violation record holding it under
    'case'): un-faulted baseline first, then the faulted run."""
    want = None
    if 'fault' not in case and 'case' in case:
        want = case.get('signature')
        case = case['case']
    with _Contained():
        res = run_case(case)
    viol = res['violations']
    r = res['result'] or {}
    return {
        'ok': not viol and not res['error'],
        'error': res['error'],
        'signatures': [v['signature'] for v in viol],
        'reproduced': (any(v['signature'] == want for v in viol)
                       if want else None),
        'oracles': {
            'crash': r.get('violated_at_crash'),
            'recovered': r.get('violated_after_recovery'),
            'final': r.get('violated_at_end')},
        'violations': viol,
        'result': r,
    }


# ----------------------------------------------------------------------- #
# selftest: defects patched into the real code inside the workers
# ----------------------------------------------------------------------- #
def _dest_branches(repo):
    out = repo.cmd("git for-each-ref --format='%(refname:short)' refs/heads")
    names = [n for n in out.split() if hs.DEST_RE.match(n)]
    return sorted(names, key=lambda n: [
        int(x) for x in re.findall(r'\d+', n)] + [n.startswith(DEV)])


def _mut_per_branch_oldest_first():
    """push_all pushes the destination branches one by one, oldest first."""
    R = berte_git.Repository
    orig = R.push_all

    def push_all(self, prune=False):
        for name in _dest_branches(self):
            self.cmd('git push origin %s', name)
        return orig(self, prune=prune)
    R.push_all = push_all


def _mut_per_branch_newest_first():
    R = berte_git.Repository
    orig = R.push_all

    def push_all(self, prune=False):
        for name in reversed(_dest_branches(self)):
            self.cmd('git push origin %s', name)
        return orig(self, prune=prune)
    R.push_all = push_all


def _mut_not_atomic():
    """push_all without --atomic."""
    R = berte_git.Repository

    def push_all(self, prune=False):
        try:
            self.cmd('git push --all %s' % ('--prune' if prune else ''))
        except CommandError as err:
            raise berte_git.PushFailedException(err) from err
    R.push_all = push_all


def _mut_queue_deleted_first():
    """handle_merge_queues deletes the merged q/w branches with a first
    push, then fast-forwards the destinations with a second one."""
    from bert_e.workflow.gitwaterflow import queueing
    orig = queueing.push

    def push(repo, branches=None, prune=False):
        if branches is None and prune:
            repo.cmd("git push --prune origin 'refs/heads/q/*:refs/heads/q/*'"
                     " 'refs/heads/w/*:refs/heads/w/*'")
        return orig(repo, branches, prune=prune)
    queueing.push = push


QUEUE_H = {'world': A, 'events': [['create', D43], ['eval', 0],
                                  ['queue', OK]]}
DIRECT_H = {'world': AN, 'events': [['create', D43], ['eval', 0]]}

SELFTEST = [
    ('per_branch_oldest_first', _mut_per_branch_oldest_first, QUEUE_H,
     ['all_or_none', 'inclusion']),
    ('per_branch_oldest_first', _mut_per_branch_oldest_first, DIRECT_H,
     ['all_or_none', 'inclusion']),
    ('per_branch_newest_first', _mut_per_branch_newest_first, QUEUE_H,
     ['all_or_none']),
    ('push_all_not_atomic', _mut_not_atomic, DIRECT_H, ['all_or_none']),
    ('queue_deleted_before_merge', _mut_queue_deleted_first, QUEUE_H,
     ['recovery_same_trees']),
]


def selftest(jobs: int = 16) -> dict:
    """Each mutation must make its expected clauses fire with a signature
    the UNCHANGED code does not produce on the same history."""
    t0 = time.time()
    out = []
    clean = {}
    with _Contained():
        def explore(history, mutate):
            baselines, results, n_cases, unfinished, notes = _explore(
                [history], 'quick', jobs, time.time() + 150, mutate=mutate)
            return _report('selftest', baselines, results, n_cases,
                           unfinished, notes, t0)
        for history in (QUEUE_H, DIRECT_H):
            rep = explore(history, None)
            clean[json.dumps(history, sort_keys=True)] = {
                v['signature'] for v in rep['violations']}
        for name, mutate, history, expect in SELFTEST:
            rep = explore(history, mutate)
            known = clean[json.dumps(history, sort_keys=True)]
            new = [v for v in rep['violations']
                   if v['signature'] not in known]
            fired = sorted({v['clause'] for v in new})
            out.append({
                'mutation': name, 'doc': (mutate.__doc__ or '').strip(),
                'history': history, 'cases': rep['cases'],
                'expected_clauses': expect, 'fired_clauses': fired,
                'new_signatures': [v['signature'] for v in new],
                'example': ({'signature': new[0]['signature'],
                             'fault': new[0]['case']['fault'],
                             'remote': new[0]['detail'].get('remote')}
                            if new else None),
                'ok': all(c in fired for c in expect),
                'errors': [n for n in rep['notes'] if 'HARNESS' in n or
                           'baseline error' in n],
            })
    return {'ok': all(o['ok'] for o in out),
            'unchanged_code_signatures': {k: sorted(v)
                                          for k, v in clean.items()},
            'mutations': out, 'wall': round(time.time() - t0, 1)}


if __name__ == '__main__':
    _tier = sys.argv[1] if len(sys.argv) > 1 else 'quick'
    if _tier == 'replay':
        print(json.dumps(replay(json.loads(sys.argv[2])), indent=1,
                         default=str))
    elif _tier == 'selftest':
        print(json.dumps(selftest(), indent=1, default=str))
    else:
        _seed = int(sys.argv[2]) if len(sys.argv) > 2 else 0
        print(json.dumps(run(_tier, _seed), indent=1, default=str))
